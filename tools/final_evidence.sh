#!/bin/bash
# final_evidence.sh : regenerate /verif/evidence/*.json by running every quick check on /repo itself (default seed),
# validate each file against the evidence schema, print timings. Run on an otherwise idle machine.
cd /verif || exit 2
git -C /repo diff --quiet || { echo "/repo has uncommitted changes"; exit 2; }
for id in C15 C16 C17 C18 C19 C20 C21 C22 C23 C33 C36; do
  s=$(date +%s); ./check $id --tier quick > /tmp/final-$id.log 2>&1; rc=$?
  echo "$id rc=$rc $(( $(date +%s)-s ))s $(grep -E '^(VIOLATION|HARNESS|KNOWN)' /tmp/final-$id.log | head -1)"
done
python3-vt - <<'PY'
import json, jsonschema, glob
sch = json.load(open('/root/.vp/EVIDENCE.schema.json'))
for f in sorted(glob.glob('/verif/evidence/*.json')):
    e = json.load(open(f)); jsonschema.validate(e, sch)
    print(f.split('/')[-1], e['tier'], 'wall', round(e['wall_s']), 'evals', e['coverage']['evaluations'], 'distinct', e['coverage']['distinct_nontrivial'], 'violations', e.get('violations'))
PY
