#!/bin/bash
# try_mutant.sh <patch-file> <check-id>... : apply a patch to /repo, run the quick checks, undo.
# Prints one line per check: <patch> <id> rc=<rc> <VIOLATION line if any>
P="$1"; shift
cd /repo || exit 2
if ! git diff --quiet; then echo "repo dirty, refusing"; exit 2; fi
git apply "$P" || { echo "patch does not apply: $P"; exit 2; }
for id in "$@"; do
  out=$(cd /verif && VERIF_EVIDENCE_DIR=/tmp/mutant-evidence ./check "$id" --tier quick ${MUTANT_ARGS:-} 2>&1); rc=$?
  echo "$(basename "$P") $id rc=$rc $(echo "$out" | grep -E '^(VIOLATION|violation|HARNESS)' | head -3 | tr '\n' ' ')"
done
git checkout -- . && git clean -fdq -- . >/dev/null 2>&1
