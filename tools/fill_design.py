#!/usr/bin/env python3
"""fill_design.py : regenerate the three result tables of DESIGN.md section 16 from /verif/results/*.log and
/verif/seeded/*/meta.json (between the BEGIN/END markers)."""
import re, json, glob, subprocess, os
d = open('/verif/DESIGN.md').read()
def table(logs):
    return subprocess.run(['python3', '/verif/tools/results_table.py'] + logs, capture_output=True, text=True).stdout.strip()
def put(name, body):
    global d
    d = re.sub(rf'(<!-- BEGIN {name} -->\n).*?(\n<!-- END {name} -->)', lambda m: m.group(1) + body + m.group(2), d, flags=re.S)
put('sensitivity-table', table(sorted(glob.glob('/verif/results/sensitivity-*.log'))))
put('benign-table', table(sorted(glob.glob('/verif/results/benign-*.log'))))
# the matrix: every seeded change against the current checks of its family (default seed)
matrix = {}
for f in sorted(glob.glob('/verif/results/seeded-matrix*.log')):
    for l in open(f):
        mm = re.match(r'seeded/(\S+) (C\d+) rc=(\d+) \d+s ?(.*)', l.strip())
        if mm:
            cls = re.search(r'class=(\S+)', mm.group(4))
            matrix.setdefault(mm.group(1), []).append({'check': mm.group(2), 'exit': int(mm.group(3)), 'first_line': ('class=' + cls.group(1)) if cls else ''})
rows = ['| change | breaks | needs, to manifest | as found | now (current checks, default seed) |', '|---|---|---|---|---|']
for mf in sorted(glob.glob('/verif/seeded/*/meta.json')):
    m = json.load(open(mf)); name = os.path.basename(os.path.dirname(mf))
    def fmt(cs):
        out = []
        for c in cs:
            cls = re.search(r'class=(\S+)', c.get('first_line', ''))
            out.append(f"{c['check']}: " + ('**caught** `' + cls.group(1).rstrip(':') + '`' if c['exit'] == 1 else 'pass' if c['exit'] == 0 else f"rc={c['exit']}"))
        return '; '.join(out)
    asf = m.get('checks_as_found') or m.get('quick_checks_run_against_it') or []
    now = matrix.get(name) or m.get('checks_after_strengthening')
    rows.append(f"| seeded/{name} | {m['property_broken']} | {m['needs_to_manifest']} | {fmt(asf) or m.get('as_found_note','not run')} | {fmt(now) if now else 'unchanged'} |")
# scoreboard
tot = caught_found = missed_found = notrun = now_caught = 0
for mf in sorted(glob.glob('/verif/seeded/*/meta.json')):
    m = json.load(open(mf)); name = os.path.basename(os.path.dirname(mf)); prop = m['property_broken']
    tot += 1
    asf = m.get('checks_as_found') or m.get('quick_checks_run_against_it') or []
    own = [c for c in asf if c['check'] == prop]
    if not own: notrun += 1
    elif any(c['exit'] == 1 for c in own): caught_found += 1
    else: missed_found += 1
    now = matrix.get(name) or m.get('checks_after_strengthening') or asf
    if any(c['check'] == prop and c['exit'] == 1 for c in now): now_caught += 1
rows.append('')
rows.append(f"Scoreboard: {tot} seeded changes; with the checks as they were when each arrived, the check of the targeted property caught {caught_found}, missed {missed_found}, and {notrun} were only run after the miss had been understood and the check strengthened (by inspection misses, noted in the table); with the checks as committed, the targeted property's check catches {now_caught} of {tot}.")
put('seeded-table', '\n'.join(rows))
open('/verif/DESIGN.md', 'w').write(d)
print('tables filled')
