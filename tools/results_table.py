#!/usr/bin/env python3
"""results_table.py <log>... : turn lane logs (lines '<patch> <check> rc=<n> <secs>s <first violation line>') into a
markdown table: one row per patch, one column per check (caught = exit 1 with a VIOLATION line)."""
import sys, re, collections
rows = collections.OrderedDict()
checks = []
for f in sys.argv[1:]:
    for l in open(f):
        m = re.match(r'(\S+) (C\d+) rc=(\d+) (\d+)s ?(.*)', l.strip())
        if not m: continue
        patch, chk, rc, secs, rest = m.groups()
        cls = re.search(r'class=(\S+)', rest)
        rows.setdefault(patch.replace('.diff', ''), {})[chk] = (int(rc), cls.group(1).rstrip(':') if cls else '')
        if chk not in checks: checks.append(chk)
checks.sort()
print('| change | ' + ' | '.join(checks) + ' |')
print('|---|' + '---|' * len(checks))
for p, d in rows.items():
    cells = []
    for c in checks:
        if c not in d: cells.append('')
        else:
            rc, cls = d[c]
            cells.append({0: 'pass', 1: f'**caught** `{cls}`', 2: 'harness error'}.get(rc, f'rc={rc}'))
    print(f'| {p} | ' + ' | '.join(cells) + ' |')
