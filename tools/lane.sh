#!/bin/bash
# lane.sh — run my checks against a PATCHED COPY of the repository, leaving /repo untouched, so
# that sensitivity patches, seeded changes and benign refactors can be tried in parallel lanes.
#
#   lane.sh create <name>                      scratch worktree of /repo HEAD + copy of /verif/sim
#                                              with its path dependencies and target dir rewritten
#   lane.sh run <name> <patch|-> <id>...       apply <patch> in the lane's worktree ("-" = none), run the
#                                              quick check of every <id> there, revert; one line per check
#   lane.sh sync <name>                        refresh the lane's copy of /verif/sim and check (after edits)
#   lane.sh destroy <name>                     remove worktree, sim copy and build output
#
# Everything lives under /tmp/lane-<name> (outside /repo and /verif). Nothing registered in
# MANIFEST.json uses this tool: registered checks always build from /repo itself.
set -u
cmd="${1:-}"; name="${2:-}"
[ -z "$cmd" ] || [ -z "$name" ] && { echo "usage: lane.sh create|run|sync|destroy <name> ..."; exit 2; }
L=/tmp/lane-$name
sync_sim() {
  mkdir -p "$L/verif"
  rsync -a --delete --exclude target /verif/sim/ "$L/verif/sim/"
  cp /verif/check "$L/verif/check"
  sed -i "s#\"/repo/#\"$L/repo/#g" "$L/verif/sim/Cargo.toml"
  # the driver builds into target/ next to itself (CARGO_TARGET_DIR); keep the lane's build output in $L/target
  ln -sfn "$L/target" "$L/verif/target"
}
case "$cmd" in
  create)
    [ -e "$L" ] && { echo "lane $name exists"; exit 2; }
    mkdir -p "$L/target" "$L/evidence" "$L/replays"
    git -C /repo worktree add --detach "$L/repo" HEAD >/dev/null 2>&1 || { echo "worktree add failed"; exit 2; }
    sync_sim
    echo "lane $name ready at $L"
    ;;
  sync) sync_sim; git -C "$L/repo" checkout -q --detach "$(git -C /repo rev-parse HEAD)"; echo synced ;;
  run)
    patch="${3:-}"; shift 3
    cd "$L/repo" || exit 2
    git diff --quiet || { echo "lane repo dirty, refusing"; exit 2; }
    if [ "$patch" != "-" ]; then git apply "$patch" || { echo "patch does not apply: $patch"; exit 2; }; fi
    for id in "$@"; do
      s=$(date +%s)
      out=$(cd "$L/verif" && VERIF_EVIDENCE_DIR="$L/evidence" VERIF_REPLAY_DIR="$L/replays" ./check "$id" --tier quick ${LANE_ARGS:-} 2>&1); rc=$?
      echo "$(basename "$patch") $id rc=$rc $(( $(date +%s)-s ))s $(echo "$out" | grep -E '^(VIOLATION|violation|HARNESS|KNOWN)' | head -3 | tr '\n' ' ' | cut -c1-500)"
      [ -n "${LANE_LOG:-}" ] && echo "$out" > "$LANE_LOG.$id"
    done
    git checkout -q -- . && git clean -fdq -- . >/dev/null 2>&1
    ;;
  exec)
    # lane.sh exec <name> <patch|-> <shell command...> : run a command in the lane's verif copy with the patch applied
    patch="${3:-}"; shift 3
    cd "$L/repo" || exit 2
    git diff --quiet || { echo "lane repo dirty, refusing"; exit 2; }
    if [ "$patch" != "-" ]; then git apply "$patch" || { echo "patch does not apply: $patch"; exit 2; }; fi
    ( cd "$L/verif" && VERIF_EVIDENCE_DIR="$L/evidence" VERIF_REPLAY_DIR="$L/replays" bash -c "$*" ); rc=$?
    cd "$L/repo" && git checkout -q -- . && git clean -fdq -- . >/dev/null 2>&1
    exit $rc
    ;;
  destroy)
    git -C /repo worktree remove --force "$L/repo" 2>/dev/null
    rm -rf "$L"
    git -C /repo worktree prune
    echo "lane $name removed"
    ;;
  *) echo "unknown command $cmd"; exit 2 ;;
esac
