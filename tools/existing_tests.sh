#!/bin/bash
# existing_tests.sh <wt-id> '<cargo test args>' : apply the seeded patch in the agent's worktree, run the named
# existing tests (unedited), revert. Appends 'EXISTING <wt-id> rc=<n> <summary>' to /tmp/existing-tests.log
ID="$1"; ARGS="$2"; WT=/tmp/wt-$ID
cd $WT || exit 2
git checkout -q -- . ; git clean -fdq -e SEEDED -e target
git apply SEEDED/patch.diff || { echo "EXISTING $ID patch does not apply" >> /tmp/existing-tests.log; exit 2; }
out=$(CARGO_NET_OFFLINE=true cargo test --offline $ARGS 2>&1); rc=$?
echo "EXISTING $ID rc=$rc [$ARGS] $(echo "$out" | grep -E '^test result' | tr '\n' ' ')" >> /tmp/existing-tests.log
git checkout -q -- . ; git clean -fdq -e SEEDED -e target
