#!/usr/bin/env python3
"""agent_prompt.py <property-id> <worktree> [extra-hint-file] : print the sub-agent prompt for a seeded change.
The prompt contains only the property's text (title, statement, quantifier, anchor files) and the worktree path."""
import json, sys
pid, wt = sys.argv[1], sys.argv[2]
extra = open(sys.argv[3]).read().strip() if len(sys.argv) > 3 else ""
p = next(json.loads(l) for l in open('/verif/properties.jsonl') if json.loads(l)['id'] == pid)
files = ", ".join(p['anchors']['files'])
print(f"""You are helping evaluate a verification effort by producing ONE realistic, subtle bug ("seeded change") in a Rust repository. Work ONLY inside the scratch git worktree {wt} (a checkout of the repository Quantus-Network/qp-zk-circuits: Plonky2 zero-knowledge circuits, a proof pool, artifact builder). Do NOT read, list or touch /verif or /repo, and do not look at any other /tmp/wt-* directory. The sandbox is offline: use `cargo ... --offline` (set CARGO_NET_OFFLINE=true). Use the worktree's own target dir (default). Lines guarded by `#[cfg(quantus_network_qp_zk_circuits_verif)]` are inert instrumentation: leave them exactly as they are and do not rely on them.

The property your change must BREAK (this is all you are told about it):

---
{pid}: {p['title']}

Statement: {p['statement']}

Quantified over: {p['quantifier']['text']}

Anchored in: {files}
---

Requirements for the change:
1. It is a modification of the repository's non-test source code (a patch a careless or mistaken developer could plausibly make: an off-by-one, a reordered check, a missed bookkeeping update on one path, an optimisation with a hole, a refactor that drops one case, two sites that each look fine alone). Do not edit, delete or weaken existing tests. Do not add cargo features/cfgs.
2. With the change the workspace still COMPILES and the EXISTING tests of the affected crate(s) still PASS. Verify this yourself by running at least the existing unit tests of the modules you touched (e.g. `cd {wt} && CARGO_NET_OFFLINE=true cargo test --offline -p <crate> --lib <module>::`). Note: tests that build real recursive aggregation circuits (names containing recursive_aggregation / two_layer / public_batch_ / aggregate_ / most of wormhole/tests aggregator tests) take minutes each in debug mode and are known to time out in the project's pinned baseline; in `--release` mode they are fast (a private-batch proof ~0.6 s, a public-batch proof ~1-2 s, artifact generation ~3-5 s), so use `cargo test --release --offline ...` whenever you need real aggregation proving. Say which tests you ran.
3. It must need something SPECIFIC to manifest — a particular interleaving of operations, a crash or I/O fault at a particular point, a multi-step history, a boundary value, an unusual input or configuration, or two cooperating sites — not something ordinary use would expose at once.
4. Provide a DEMONSTRATION: a new test (put it in a new file or a new `#[cfg(test)] mod` that you add, or a small example program) that FAILS with your change applied and PASSES on the unmodified code. Confirm both directions yourself (apply/revert the patch).
{extra}

Deliverables, written into {wt}/SEEDED/ (create it):
- patch.diff : `git diff` of ONLY the source change that breaks the property (not the demo test), applicable with `git apply` from the repository root of a clean checkout of the same commit.
- demo.diff : `git diff` adding the demonstration test/program (separate from patch.diff; new files must be included, e.g. via `git add -N` before `git diff`), plus demo_cmd.txt whose LAST non-comment line is the exact single shell command (starting with `cd {wt} && ...`) that runs the demo once demo.diff is applied.
- NOTES.md : what the change is, why it breaks the property, what specific condition is needed to manifest it, which existing tests you ran (with pass counts), and the output of the demo with and without the change.
Leave the worktree's tracked files CLEAN at the end (revert your edits after producing the diffs; keep only the SEEDED/ directory and the target/ build output). Finally reply with a short summary (5-10 lines) of the change and the manifest condition.""")
