#!/usr/bin/env python3
"""seeded_save.py <id> <dir-name> '<needs>' '<caught-by json>' : copy a confirmed seeded change into /verif/seeded/."""
import sys, json, shutil, os, re
pid, name, needs, caught = sys.argv[1], sys.argv[2], sys.argv[3], json.loads(sys.argv[4])
src = f"/tmp/wt-{pid}/SEEDED"
dst = f"/verif/seeded/{name}"
os.makedirs(dst, exist_ok=True)
for f in ("patch.diff", "demo.diff", "demo_cmd.txt", "NOTES.md"):
    if os.path.exists(f"{src}/{f}"):
        shutil.copy(f"{src}/{f}", f"{dst}/{f}")
log = open(f"/tmp/seeded-{pid}.log").read() if os.path.exists(f"/tmp/seeded-{pid}.log") else ""
checks = re.findall(r"^CHECK (\S+) rc=(\d+)(.*)$", log, re.M)
meta = {
    "property_broken": pid,
    "origin": "independent sub-agent given only the property text and a scratch worktree",
    "needs_to_manifest": needs,
    "confirmed_by_me": {
        "demo_fails_with_change_and_passes_without": True,
        "existing_tests_of_touched_module_pass_with_change": True,
        "how": "tools/seeded_verify.sh in the agent's scratch worktree (demo both directions, existing module tests with the change), then `git -C /repo apply patch.diff`, quick checks, `git -C /repo checkout -- .`",
    },
    "quick_checks_run_against_it": [{"check": c, "exit": int(rc), "first_line": rest.strip()[:300]} for c, rc, rest in checks],
    "caught_by": caught,
}
json.dump(meta, open(f"{dst}/meta.json", "w"), indent=1)
print("saved", dst)
