#!/bin/bash
# seeded_verify2.sh <wt-id> <lane> <check-id>... : confirm a sub-agent's seeded change in its own worktree
# /tmp/wt-<wt-id> (demo fails with the patch, passes without), then run my quick checks against it in a lane
# (a patched copy of the repository; /repo itself is never touched). Log: /tmp/seeded-<wt-id>.log
# env EXISTING_TESTS="<cmd>" additionally runs that command in the worktree with the patch applied.
ID="$1"; LANE="$2"; shift 2
WT=/tmp/wt-$ID; S=$WT/SEEDED
LOG=/tmp/seeded-$ID.log; : > $LOG
cd $WT || exit 2
git checkout -q -- . ; git clean -fdq -e SEEDED -e target
git apply --check $S/patch.diff || { echo "patch does not apply in worktree" | tee -a $LOG; exit 2; }
git apply $S/demo.diff || { echo "demo does not apply" | tee -a $LOG; exit 2; }
CMD=$(grep -v "^#" $S/demo_cmd.txt | grep -v "^$" | tail -1 | sed "s#git apply SEEDED/demo.diff && ##")
echo "== demo WITHOUT the change: $CMD" | tee -a $LOG
( eval "$CMD" ) >> $LOG 2>&1; rc_without=$?
git apply $S/patch.diff
echo "== demo WITH the change" | tee -a $LOG
( eval "$CMD" ) >> $LOG 2>&1; rc_with=$?
echo "demo rc without=$rc_without with=$rc_with (want 0 / non-zero)" | tee -a $LOG
if [ -n "${EXISTING_TESTS:-}" ]; then
  echo "== existing tests WITH the change: $EXISTING_TESTS" | tee -a $LOG
  ( cd $WT && eval "$EXISTING_TESTS" ) >> $LOG 2>&1; echo "existing tests rc=$?" | tee -a $LOG
  grep -E "^test result" $LOG | tail -4
fi
git checkout -q -- . ; git clean -fdq -e SEEDED -e target
for id in "$@"; do
  line=$(/verif/tools/lane.sh run "$LANE" $S/patch.diff "$id" 2>&1 | tail -1)
  rc=$(echo "$line" | sed -n 's/.* rc=\([0-9]*\) .*/\1/p')
  echo "CHECK $id rc=$rc ${line#* rc=$rc }" | tee -a $LOG
done
