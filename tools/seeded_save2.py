#!/usr/bin/env python3
"""seeded_save2.py <wt-id> <dir-name> <property> '<needs>' '<caught-by json list>' [as-found-log] [now-log]
Copy a confirmed seeded change from /tmp/wt-<wt-id>/SEEDED into /verif/seeded/<dir-name>/ with meta.json.
as-found-log: seeded_verify2 log (demo both ways + CHECK lines with the checks as they were when the change arrived;
default /tmp/seeded-<wt-id>.log); now-log: lane.sh run lines after strengthening (optional)."""
import sys, json, shutil, os, re
wid, name, prop, needs, caught = sys.argv[1], sys.argv[2], sys.argv[3], sys.argv[4], json.loads(sys.argv[5])
asfound = sys.argv[6] if len(sys.argv) > 6 and sys.argv[6] else f"/tmp/seeded-{wid}.log"
now = sys.argv[7] if len(sys.argv) > 7 else None
src, dst = f"/tmp/wt-{wid}/SEEDED", f"/verif/seeded/{name}"
os.makedirs(dst, exist_ok=True)
for f in ("patch.diff", "demo.diff", "demo_cmd.txt", "NOTES.md"):
    if os.path.exists(f"{src}/{f}"):
        shutil.copy(f"{src}/{f}", f"{dst}/{f}")
log = open(asfound).read() if os.path.exists(asfound) else ""
demo = re.search(r"demo rc without=(\d+) with=(\d+)", log)
def checks(text, pat):
    return [{"check": c, "exit": int(rc), "first_line": rest.strip()[:300]} for c, rc, rest in re.findall(pat, text, re.M)]
meta = {
    "property_broken": prop,
    "origin": "independent sub-agent given only the property text (and, in round 2, one sentence about an earlier change to avoid) and a scratch worktree",
    "needs_to_manifest": needs,
    "confirmed_by_me": {
        "demo_exit_without_change": int(demo.group(1)) if demo else None,
        "demo_exit_with_change": int(demo.group(2)) if demo else None,
        "existing_tests": "the sub-agent's report lists the existing test modules it ran with the change applied (see NOTES.md)",
        "how": "tools/seeded_verify2.sh: demo both ways in the agent's worktree, then the quick checks against the patch in a lane (a patched copy; /repo untouched)",
    },
    "checks_as_found": checks(log, r"^CHECK (\S+) rc=(\d+)(.*)$"),
    "caught_by": caught,
}
if now and os.path.exists(now):
    meta["checks_after_strengthening"] = checks(open(now).read(), r"^\S+ (C\d+) rc=(\d+)(.*)$")
json.dump(meta, open(f"{dst}/meta.json", "w"), indent=1)
print("saved", dst)
