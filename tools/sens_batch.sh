#!/bin/bash
# sens_batch.sh <lane> <glob-prefix>... : run every sensitivity patch whose name starts with one of the
# prefixes through the lane, against the checks of its family. Appends to /tmp/sens-<lane>.log
lane="$1"; shift
for pre in "$@"; do
  case "$pre" in
    pool) ids="C19 C20 C21 C22" ;;
    pub) ids="C23" ;;
    load) ids="C16 C17" ;;
    rng) ids="C15" ;;
    scrub) ids="C33" ;;
    real) ids="C18 C36" ;;
  esac
  for p in /verif/sensitivity/$pre-*.diff; do
    /verif/tools/lane.sh run "$lane" "$p" $ids >> /tmp/sens-$lane.log 2>&1
  done
done
