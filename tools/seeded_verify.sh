#!/bin/bash
# seeded_verify.sh <id> <check-id>... : confirm a sub-agent's seeded change in its worktree
# (demo fails with the patch, passes without; existing module tests pass with the patch), then run
# my quick checks against it on /repo and undo. Writes a log to /tmp/seeded-<id>.log
ID="$1"; shift
WT=/tmp/wt-$ID; S=$WT/SEEDED
LOG=/tmp/seeded-$ID.log; : > $LOG
cd $WT || exit 2
git checkout -q -- . ; git apply --check $S/patch.diff || { echo "patch does not apply in worktree" | tee -a $LOG; exit 2; }
git apply $S/demo.diff || { echo "demo does not apply" | tee -a $LOG; exit 2; }
CMD=$(cat $S/demo_cmd.txt | grep -v "^#" | grep -v "^$" | tail -1 | sed "s#git apply SEEDED/demo.diff && ##")
echo "== demo WITHOUT the change: $CMD" | tee -a $LOG
( eval "$CMD" ) >> $LOG 2>&1; rc_without=$?
git apply $S/patch.diff
echo "== demo WITH the change" | tee -a $LOG
( eval "$CMD" ) >> $LOG 2>&1; rc_with=$?
echo "demo rc without=$rc_without with=$rc_with (want 0 / non-zero)" | tee -a $LOG
if [ -n "${EXISTING_TESTS:-}" ]; then
  echo "== existing tests WITH the change: $EXISTING_TESTS" | tee -a $LOG
  ( cd $WT && eval "$EXISTING_TESTS" ) >> $LOG 2>&1; echo "existing tests rc=$?" | tee -a $LOG
  grep -E "^test result" $LOG | tail -3
fi
git checkout -q -- . ; git clean -fdq -e SEEDED -e target
# my checks against it
cd /repo && git diff --quiet || { echo "/repo dirty"; exit 2; }
git apply $S/patch.diff || { echo "patch does not apply to /repo"; exit 2; }
for id in "$@"; do
  out=$(cd /verif && VERIF_EVIDENCE_DIR=/tmp/mutant-evidence VERIF_REPLAY_DIR=/tmp/seeded-replays-$ID ./check "$id" --tier quick 2>&1); rc=$?
  echo "CHECK $id rc=$rc $(echo "$out" | grep -E '^(VIOLATION|violation|HARNESS)' | head -2 | tr '\n' ' ' | cut -c1-400)" | tee -a $LOG
done
git checkout -- . && git clean -fdq -- . >/dev/null 2>&1
