#!/bin/bash
# seeded_matrix.sh <lane> <name>... : run the current quick checks of each seeded change's family against it in the
# given lane; appends '<name> <check> rc=<n> <secs>s <violation line>' to /tmp/seeded-matrix-<lane>.log
lane="$1"; shift
for name in "$@"; do
  prop=$(python3 -c "import json;print(json.load(open('/verif/seeded/$name/meta.json'))['property_broken'])")
  case "$prop" in C19|C20|C21|C22) ids="C19 C20 C21 C22" ;; *) ids="$prop" ;; esac
  /verif/tools/lane.sh run "$lane" /verif/seeded/$name/patch.diff $ids 2>&1 | sed "s#^patch.diff #seeded/$name #" >> /tmp/seeded-matrix-$lane.log
done
