#!/bin/bash
# replay_test.sh <lane> <patch> <id> : with the patch applied, run the quick check, take the replay file it
# names, replay it (must report the violation again, twice, identically), then replay it on the unpatched
# tree (must report no violation). Prints one summary line.
lane="$1"; patch="$2"; id="$3"; L=/tmp/lane-$lane
out=$(/verif/tools/lane.sh exec "$lane" "$patch" "./check $id --tier quick > $L/rt-run.log 2>&1; rp=\$(grep '^VIOLATION' $L/rt-run.log | sed 's/.*replay=//' | head -1); echo RP=\$rp; [ -n \"\$rp\" ] && { ./check $id --replay \$rp > $L/rt-r1.log 2>&1; echo R1=\$?; ./check $id --replay \$rp > $L/rt-r2.log 2>&1; echo R2=\$?; }")
rp=$(echo "$out" | sed -n 's/^RP=//p'); r1=$(echo "$out" | sed -n 's/^R1=//p'); r2=$(echo "$out" | sed -n 's/^R2=//p')
same=no; if [ -n "$rp" ] && diff <(grep -E '^(replayed|VIOLATION)' $L/rt-r1.log) <(grep -E '^(replayed|VIOLATION)' $L/rt-r2.log) >/dev/null; then same=yes; fi
clean=""
if [ -n "$rp" ]; then /verif/tools/lane.sh exec "$lane" - "./check $id --replay $rp > $L/rt-clean.log 2>&1"; clean=$?; fi
echo "REPLAY $(basename $patch) $id file=${rp:-none} patched_replay_rc=$r1/$r2 identical=$same unpatched_replay_rc=$clean"
