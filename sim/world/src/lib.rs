//! World generation shared by the simulators: deposits in a 4-ary Poseidon
//! tree under a real block header, and real leaf proofs spending them.
use plonky2::field::types::Field;
use plonky2::hash::poseidon2::Poseidon2Hash;
use plonky2::plonk::config::Hasher;
use plonky2::plonk::proof::ProofWithPublicInputs;
use qpz_core::rng::Rng;
use wormhole_circuit::block_header::header::HeaderInputs;
use wormhole_circuit::inputs::{CircuitInputs, PrivateCircuitInputs};
use wormhole_circuit::nullifier::Nullifier;
use wormhole_circuit::unspendable_account::UnspendableAccount;
use wormhole_inputs::{BytesDigest, PublicCircuitInputs};
use wormhole_prover::WormholeProver;
use zk_circuits_common::circuit::{wormhole_leaf_circuit_config, C, D, F};
use zk_circuits_common::serialization::{bytes_to_digest, digest_to_bytes as serialize_digest};
use zk_circuits_common::utils::{digest_to_bytes, u64_to_felts};
use zk_circuits_common::zk_merkle::{hash_node, Hash256, ARITY, SIBLINGS_PER_LEVEL};

pub type Proof = ProofWithPublicInputs<F, C, D>;

/// Digest logs of the repository's own test fixtures (structurally valid).
pub const DIGEST: [u8; 110] = [
    8, 6, 112, 111, 119, 95, 128, 233, 182, 183, 107, 158, 1, 115, 19, 219, 126, 253, 86, 30, 208, 176, 70, 21, 45, 180, 229, 9, 62, 91, 4, 6, 53, 245, 52, 48, 38, 123, 225, 5, 112, 111, 119, 95, 1, 1, 0, 0, 0, 0, 0, 0, 0, 0, 0, 0, 0, 0, 0, 0, 0, 0, 0, 0, 0, 0, 0, 0, 0, 0, 0, 0, 0, 0, 0, 0, 0, 0, 0, 0, 0, 0, 0, 0, 0, 0, 0, 0, 0, 0, 0, 0, 0, 0, 0, 0, 0, 0, 0, 0, 0, 0, 0, 0, 0, 0, 0, 18, 79, 226,
];

/// A canonical 32-byte digest (every 8-byte limb below the field order).
pub fn random_digest(rng: &mut Rng) -> BytesDigest {
    loop {
        let mut b = [0u8; 32];
        rng.fill(&mut b);
        // keep limbs canonical by clearing the top bit of each 8-byte limb
        for l in 0..4 {
            b[l * 8 + 7] &= 0x7f;
        }
        if let Ok(d) = BytesDigest::try_from(b) {
            return d;
        }
    }
}

#[derive(Clone, Debug)]
pub struct Deposit {
    pub secret: BytesDigest,
    pub transfer_count: u64,
    pub asset_id: u32,
    pub input_amount: u32,
}

impl Deposit {
    pub fn unspendable_account(&self) -> BytesDigest {
        digest_to_bytes(UnspendableAccount::from_secret(self.secret).account_id)
    }
    pub fn nullifier(&self) -> BytesDigest {
        digest_to_bytes(Nullifier::from_preimage(self.secret, self.transfer_count).hash)
    }
    pub fn leaf_hash(&self) -> Hash256 {
        let acct = self.unspendable_account();
        let a: [u8; 32] = acct.as_ref().try_into().unwrap();
        let mut pre = Vec::new();
        pre.extend(bytes_to_digest(&BytesDigest::try_from(a).unwrap()));
        pre.extend(u64_to_felts(self.transfer_count));
        pre.push(F::from_canonical_u32(self.asset_id));
        pre.push(F::from_canonical_u32(self.input_amount));
        serialize_digest(&Poseidon2Hash::hash_no_pad(&pre).elements)
    }
}

/// One block: a 4-ary tree of deposits under a header.
#[derive(Clone, Debug)]
pub struct Block {
    pub deposits: Vec<Deposit>,
    pub levels: Vec<Vec<Hash256>>,
    pub root: Hash256,
    pub block_number: u32,
    pub parent_hash: BytesDigest,
    pub state_root: BytesDigest,
    pub extrinsics_root: BytesDigest,
    pub block_hash: BytesDigest,
}

fn build_tree(leaves: &[Hash256]) -> (Hash256, Vec<Vec<Hash256>>) {
    let mut levels: Vec<Vec<Hash256>> = vec![leaves.to_vec()];
    while levels.last().unwrap().len() > 1 {
        let cur = levels.last().unwrap();
        let mut next = Vec::new();
        for chunk in cur.chunks(ARITY) {
            let mut children: [Hash256; ARITY] = [[0u8; 32]; ARITY];
            for (i, c) in chunk.iter().enumerate() {
                children[i] = *c;
            }
            next.push(hash_node(&children).expect("canonical children"));
        }
        levels.push(next);
    }
    (levels.last().unwrap()[0], levels)
}

fn merkle_path(idx: usize, levels: &[Vec<Hash256>]) -> (Vec<[Hash256; SIBLINGS_PER_LEVEL]>, Vec<u8>) {
    let mut siblings = Vec::new();
    let mut positions = Vec::new();
    let mut cur = idx;
    for level in levels.iter().take(levels.len() - 1) {
        let start = (cur / ARITY) * ARITY;
        let pos_in_group = cur % ARITY;
        let mut children: [Hash256; ARITY] = [[0u8; 32]; ARITY];
        for (i, c) in children.iter_mut().enumerate() {
            if start + i < level.len() {
                *c = level[start + i];
            }
        }
        let me = children[pos_in_group];
        children.sort();
        let sp = children.iter().position(|h| *h == me).unwrap() as u8;
        let mut sib: [Hash256; SIBLINGS_PER_LEVEL] = [[0u8; 32]; SIBLINGS_PER_LEVEL];
        let mut k = 0;
        for (i, c) in children.iter().enumerate() {
            if i as u8 != sp {
                sib[k] = *c;
                k += 1;
            }
        }
        siblings.push(sib);
        positions.push(sp);
        cur /= ARITY;
    }
    (siblings, positions)
}

impl Block {
    pub fn new(deposits: Vec<Deposit>, block_number: u32, rng: &mut Rng) -> Block {
        assert!(deposits.len() >= 2, "a tree needs at least two leaves here");
        let leaves: Vec<Hash256> = deposits.iter().map(|d| d.leaf_hash()).collect();
        let (root, levels) = build_tree(&leaves);
        let parent_hash = random_digest(rng);
        let state_root = random_digest(rng);
        let extrinsics_root = random_digest(rng);
        let header = HeaderInputs::new(parent_hash, block_number, state_root, extrinsics_root, BytesDigest::try_from(root).expect("tree root is canonical"), &DIGEST).expect("header");
        let block_hash = header.block_hash();
        Block { deposits, levels, root, block_number, parent_hash, state_root, extrinsics_root, block_hash }
    }

    /// Circuit inputs for spending deposit `idx`.
    pub fn spend(&self, idx: usize, out1: u32, out2: u32, fee_bps: u32, exit1: BytesDigest, exit2: BytesDigest) -> CircuitInputs {
        let d = &self.deposits[idx];
        let (siblings, positions) = merkle_path(idx, &self.levels);
        CircuitInputs {
            public: PublicCircuitInputs {
                asset_id: d.asset_id,
                output_amount_1: out1,
                output_amount_2: out2,
                volume_fee_bps: fee_bps,
                nullifier: d.nullifier(),
                exit_account_1: exit1,
                exit_account_2: exit2,
                block_hash: self.block_hash,
                block_number: self.block_number,
            },
            private: PrivateCircuitInputs {
                secret: d.secret.into(),
                transfer_count: d.transfer_count,
                unspendable_account: d.unspendable_account(),
                parent_hash: self.parent_hash,
                state_root: self.state_root,
                extrinsics_root: self.extrinsics_root,
                digest: DIGEST,
                input_amount: d.input_amount,
                zk_tree_root: self.root,
                zk_merkle_siblings: siblings,
                zk_merkle_positions: positions,
            },
        }
    }
}

pub fn random_deposit(rng: &mut Rng, asset_id: u32) -> Deposit {
    Deposit { secret: random_digest(rng), transfer_count: rng.range(0, 1 << 20), asset_id, input_amount: rng.range(1_000, 4_000_000) as u32 }
}

/// Largest total output the fee rule allows.
pub fn max_total_output(input: u32, fee_bps: u32) -> u32 {
    ((input as u64 * (10_000 - fee_bps as u64)) / 10_000) as u32
}

/// Prove one leaf with a freshly built canonical leaf prover.
pub fn prove_leaf(inputs: &CircuitInputs) -> anyhow::Result<Proof> {
    WormholeProver::new(wormhole_leaf_circuit_config())?.commit(inputs)?.prove()
}

/// The dummy inputs the builder uses for the padding template, with public
/// fields overridable (for foreign-dummy templates).
pub fn dummy_inputs() -> anyhow::Result<CircuitInputs> {
    wormhole_aggregator::build_dummy_circuit_inputs()
}
