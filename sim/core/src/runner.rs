//! Run many independent simulations on worker threads; results are merged in
//! run-index order so output does not depend on the worker count.
use std::sync::atomic::{AtomicBool, AtomicU64, Ordering};
use std::sync::Mutex;

pub struct BatchCfg {
    pub first_run: u64,
    /// Run at most this many runs ...
    pub max_runs: u64,
    /// ... and stop handing out new runs after this wall-clock budget (0 = none).
    pub budget_s: u64,
    pub workers: usize,
    /// Stop after the first run for which `is_failure` is true.
    pub stop_on_failure: bool,
}

/// Runs `f(run_index)` for run indices `first_run..`, in parallel; returns the
/// outcomes sorted by run index. `init` runs once per worker thread.
pub fn run_batch<R: Send, W>(
    cfg: &BatchCfg,
    init: impl Fn(usize) -> W + Sync,
    f: impl Fn(&mut W, u64) -> R + Sync,
    is_failure: impl Fn(&R) -> bool + Sync,
) -> Vec<(u64, R)> {
    let next = AtomicU64::new(0);
    let stop = AtomicBool::new(false);
    let out: Mutex<Vec<(u64, R)>> = Mutex::new(Vec::new());
    let t0 = crate::real_now_ns();
    std::thread::scope(|s| {
        for w in 0..cfg.workers.max(1) {
            let (next, stop, out, init, f, is_failure) = (&next, &stop, &out, &init, &f, &is_failure);
            std::thread::Builder::new()
                .stack_size(64 << 20)
                .spawn_scoped(s, move || {
                    let mut ws = init(w);
                    loop {
                        if stop.load(Ordering::Relaxed) {
                            break;
                        }
                        if cfg.budget_s > 0
                            && (crate::real_now_ns() - t0) / 1_000_000_000 >= cfg.budget_s
                        {
                            break;
                        }
                        let i = next.fetch_add(1, Ordering::Relaxed);
                        if i >= cfg.max_runs {
                            break;
                        }
                        let r = f(&mut ws, cfg.first_run + i);
                        if cfg.stop_on_failure && is_failure(&r) {
                            stop.store(true, Ordering::Relaxed);
                        }
                        out.lock().unwrap().push((cfg.first_run + i, r));
                    }
                })
                .unwrap();
        }
    });
    let mut v = out.into_inner().unwrap();
    v.sort_by_key(|(i, _)| *i);
    v
}
