//! Evidence files per EVIDENCE.schema.json.
use serde_json::{json, Map, Value};
use std::collections::BTreeMap;

#[derive(Default, Clone, Debug)]
pub struct Counters(pub BTreeMap<String, u64>);

impl Counters {
    pub fn inc(&mut self, k: &str) {
        self.add(k, 1);
    }
    pub fn add(&mut self, k: &str, n: u64) {
        if let Some(v) = self.0.get_mut(k) {
            *v += n;
        } else {
            self.0.insert(k.to_string(), n);
        }
    }
    pub fn get(&self, k: &str) -> u64 {
        self.0.get(k).copied().unwrap_or(0)
    }
    pub fn merge(&mut self, other: &Counters) {
        for (k, v) in &other.0 {
            self.add(k, *v);
        }
    }
    pub fn to_json(&self) -> Value {
        Value::Object(self.0.iter().map(|(k, v)| (k.clone(), json!(v))).collect::<Map<_, _>>())
    }
}

pub struct Evidence {
    pub property_id: String,
    pub tier: String,
    pub seed: u64,
    pub level: String,
    pub evaluations: u64,
    pub distinct_nontrivial: u64,
    pub rule: String,
    pub samples: Vec<Value>,
    pub exhaustive: Option<bool>,
    pub extra: Map<String, Value>,
    pub assumptions: Vec<String>,
    pub wall_s: f64,
    pub violations: u64,
}

impl Evidence {
    pub fn write(&self, path: &str) -> std::io::Result<()> {
        let mut cov = Map::new();
        cov.insert("evaluations".into(), json!(self.evaluations));
        cov.insert("distinct_nontrivial".into(), json!(self.distinct_nontrivial));
        cov.insert("rule".into(), json!(self.rule));
        cov.insert("samples".into(), Value::Array(self.samples.clone()));
        if let Some(e) = self.exhaustive {
            cov.insert("exhaustive".into(), json!(e));
        }
        for (k, v) in &self.extra {
            cov.insert(k.clone(), v.clone());
        }
        // JSON integers: keep the seed inside i64 range for strict readers.
        let seed = (self.seed & 0x7fff_ffff_ffff_ffff) as i64;
        let doc = json!({
            "property_id": self.property_id,
            "tier": self.tier,
            "seed": seed,
            "level": self.level,
            "coverage": Value::Object(cov),
            "assumptions": self.assumptions,
            "wall_s": self.wall_s,
            "violations": self.violations,
        });
        if let Some(dir) = std::path::Path::new(path).parent() {
            std::fs::create_dir_all(dir)?;
        }
        let tmp = format!("{path}.tmp");
        std::fs::write(&tmp, serde_json::to_string_pretty(&doc).unwrap())?;
        std::fs::rename(&tmp, path)
    }
}
