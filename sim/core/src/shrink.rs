//! Delta-debugging over a sequence of steps.

/// Minimise `steps` while `fails(candidate)` stays true. `fails` must be
/// deterministic. Returns the minimised sequence and the number of candidate
/// executions.
pub fn ddmin<T: Clone>(
    steps: Vec<T>,
    mut fails: impl FnMut(&[T]) -> bool,
    max_execs: usize,
) -> (Vec<T>, usize) {
    let mut cur = steps;
    let mut execs = 0usize;
    let mut chunk = (cur.len() / 2).max(1);
    loop {
        let mut progressed = false;
        let mut i = 0;
        while i < cur.len() {
            if execs >= max_execs {
                return (cur, execs);
            }
            let end = (i + chunk).min(cur.len());
            let mut cand = Vec::with_capacity(cur.len() - (end - i));
            cand.extend_from_slice(&cur[..i]);
            cand.extend_from_slice(&cur[end..]);
            execs += 1;
            if fails(&cand) {
                cur = cand;
                progressed = true;
            } else {
                i = end;
            }
        }
        if chunk == 1 {
            if !progressed {
                break;
            }
        } else {
            chunk = (chunk / 2).max(1);
        }
    }
    (cur, execs)
}

/// Try to simplify individual steps: `simplify(step)` yields simpler variants.
pub fn simplify_each<T: Clone>(
    mut cur: Vec<T>,
    simplify: impl Fn(&T) -> Vec<T>,
    mut fails: impl FnMut(&[T]) -> bool,
    max_execs: usize,
) -> (Vec<T>, usize) {
    let mut execs = 0;
    let mut i = 0;
    while i < cur.len() {
        let mut improved = false;
        for v in simplify(&cur[i]) {
            if execs >= max_execs {
                return (cur, execs);
            }
            let mut cand = cur.clone();
            cand[i] = v;
            execs += 1;
            if fails(&cand) {
                cur = cand;
                improved = true;
                break;
            }
        }
        if !improved {
            i += 1;
        }
    }
    (cur, execs)
}
