//! Shared simulator core: seeded PRNG, batch runner, evidence and replay files.
pub mod evidence;
pub mod rng;
pub mod runner;
pub mod shrink;

pub const DEFAULT_SEED: u64 = 0x5157_414e_5455_5331; // fixed default: "QWANTUS1"

/// `VERIF_SEED` or the fixed default.
pub fn seed_from_env() -> u64 {
    match std::env::var("VERIF_SEED") {
        // an empty value means "not given"
        Ok(s) if s.trim().is_empty() => DEFAULT_SEED,
        Ok(s) => s.trim().parse::<u64>().unwrap_or_else(|_| {
            // accept negative / hex forms deterministically
            let t = s.trim();
            if let Some(h) = t.strip_prefix("0x") {
                u64::from_str_radix(h, 16).unwrap_or(DEFAULT_SEED)
            } else if let Ok(i) = t.parse::<i64>() {
                i as u64
            } else {
                rng::hash_str(t)
            }
        }),
        Err(_) => DEFAULT_SEED,
    }
}

#[derive(Clone, Copy, Debug, PartialEq, Eq)]
pub enum Tier {
    Quick,
    Thorough,
}

impl Tier {
    pub fn from_env_or(arg: Option<&str>) -> Tier {
        let v = arg
            .map(|s| s.to_string())
            .or_else(|| std::env::var("VERIF_TIER").ok())
            .unwrap_or_else(|| "quick".into());
        if v.eq_ignore_ascii_case("thorough") {
            Tier::Thorough
        } else {
            Tier::Quick
        }
    }
    pub fn as_str(&self) -> &'static str {
        match self {
            Tier::Quick => "quick",
            Tier::Thorough => "thorough",
        }
    }
}

/// Wall-clock budget for the thorough tier (seconds).
pub fn budget_s(default: u64) -> u64 {
    std::env::var("VERIF_BUDGET_S")
        .ok()
        .and_then(|s| s.parse().ok())
        .unwrap_or(default)
}

pub fn workers() -> usize {
    std::env::var("VERIF_WORKERS")
        .ok()
        .and_then(|s| s.parse().ok())
        .unwrap_or_else(|| {
            std::thread::available_parallelism()
                .map(|n| n.get())
                .unwrap_or(4)
        })
}

/// Real monotonic time via raw syscall: never goes through an interposed
/// `clock_gettime`.
pub fn real_now_ns() -> u64 {
    let mut ts = libc::timespec {
        tv_sec: 0,
        tv_nsec: 0,
    };
    unsafe {
        libc::syscall(
            libc::SYS_clock_gettime,
            libc::CLOCK_MONOTONIC as libc::c_long,
            &mut ts as *mut libc::timespec,
        );
    }
    ts.tv_sec as u64 * 1_000_000_000 + ts.tv_nsec as u64
}

/// CPU time consumed by the calling thread (raw syscall).
pub fn thread_cpu_ns() -> u64 {
    let mut ts = libc::timespec {
        tv_sec: 0,
        tv_nsec: 0,
    };
    unsafe {
        libc::syscall(
            libc::SYS_clock_gettime,
            libc::CLOCK_THREAD_CPUTIME_ID as libc::c_long,
            &mut ts as *mut libc::timespec,
        );
    }
    ts.tv_sec as u64 * 1_000_000_000 + ts.tv_nsec as u64
}

/// Exit codes of every simulator binary.
pub const EXIT_OK: i32 = 0;
pub const EXIT_VIOLATION: i32 = 1;
pub const EXIT_HARNESS: i32 = 2;

pub fn harness_error(msg: &str) -> ! {
    eprintln!("HARNESS-ERROR: {msg}");
    std::process::exit(EXIT_HARNESS);
}

/// Evidence file for a property (`VERIF_EVIDENCE_DIR` overrides the directory,
/// used only by sensitivity experiments so they do not clobber real evidence).
pub fn evidence_path(id: &str) -> String {
    let dir = std::env::var("VERIF_EVIDENCE_DIR").unwrap_or_else(|_| "/verif/evidence".into());
    format!("{dir}/{id}.json")
}

pub fn replay_dir() -> String {
    let dir = std::env::var("VERIF_REPLAY_DIR").unwrap_or_else(|_| "/verif/replays".into());
    let _ = std::fs::create_dir_all(&dir);
    dir
}

/// Silence stdout of in-process library code (the repository's builders print progress).
pub struct Gag(i32);

impl Gag {
    pub fn new() -> Gag {
        use std::io::Write;
        let _ = std::io::stdout().flush();
        unsafe {
            let saved = libc::dup(1);
            let devnull = libc::open(b"/dev/null\0".as_ptr() as *const libc::c_char, libc::O_WRONLY);
            libc::dup2(devnull, 1);
            libc::close(devnull);
            Gag(saved)
        }
    }
}

impl Default for Gag {
    fn default() -> Self {
        Self::new()
    }
}

impl Drop for Gag {
    fn drop(&mut self) {
        use std::io::Write;
        let _ = std::io::stdout().flush();
        unsafe {
            libc::dup2(self.0, 1);
            libc::close(self.0);
        }
    }
}
