//! SplitMix64 / xoshiro256** implemented here so streams do not depend on any
//! `rand` version.

#[inline]
pub fn splitmix(x: &mut u64) -> u64 {
    *x = x.wrapping_add(0x9E37_79B9_7F4A_7C15);
    let mut z = *x;
    z = (z ^ (z >> 30)).wrapping_mul(0xBF58_476D_1CE4_E5B9);
    z = (z ^ (z >> 27)).wrapping_mul(0x94D0_49BB_1331_11EB);
    z ^ (z >> 31)
}

pub fn mix(a: u64, b: u64) -> u64 {
    let mut s = a ^ b.wrapping_mul(0xD6E8_FEB8_6659_FD93).rotate_left(23);
    let x = splitmix(&mut s);
    x ^ splitmix(&mut s).rotate_left(17)
}

pub fn hash_str(s: &str) -> u64 {
    let mut h = 0xcbf2_9ce4_8422_2325u64;
    for b in s.bytes() {
        h ^= b as u64;
        h = h.wrapping_mul(0x0000_0100_0000_01B3);
    }
    h
}

pub fn hash_bytes(bytes: &[u8]) -> u64 {
    let mut h = 0xcbf2_9ce4_8422_2325u64;
    for b in bytes {
        h ^= *b as u64;
        h = h.wrapping_mul(0x0000_0100_0000_01B3);
    }
    let mut s = h;
    splitmix(&mut s)
}

#[derive(Clone, Debug)]
pub struct Rng {
    s: [u64; 4],
    pub draws: u64,
}

impl Rng {
    pub fn new(seed: u64) -> Self {
        let mut x = seed;
        let s = [
            splitmix(&mut x),
            splitmix(&mut x),
            splitmix(&mut x),
            splitmix(&mut x),
        ];
        Rng { s, draws: 0 }
    }

    /// Independent sub-stream, so adding a draw in one place does not shift
    /// another.
    pub fn fork(&self, label: &str) -> Rng {
        Rng::new(mix(self.s[0] ^ self.s[2].rotate_left(29), hash_str(label)))
    }

    #[inline]
    pub fn next_u64(&mut self) -> u64 {
        self.draws += 1;
        let r = self.s[1].wrapping_mul(5).rotate_left(7).wrapping_mul(9);
        let t = self.s[1] << 17;
        self.s[2] ^= self.s[0];
        self.s[3] ^= self.s[1];
        self.s[1] ^= self.s[2];
        self.s[0] ^= self.s[3];
        self.s[2] ^= t;
        self.s[3] = self.s[3].rotate_left(45);
        r
    }

    /// Uniform in `0..n` (n > 0), unbiased.
    pub fn below(&mut self, n: u64) -> u64 {
        assert!(n > 0);
        let zone = u64::MAX - (u64::MAX % n);
        loop {
            let v = self.next_u64();
            if v < zone {
                return v % n;
            }
        }
    }

    pub fn range(&mut self, lo: u64, hi_incl: u64) -> u64 {
        lo + self.below(hi_incl - lo + 1)
    }

    pub fn usize(&mut self, n: usize) -> usize {
        self.below(n as u64) as usize
    }

    pub fn chance(&mut self, num: u64, den: u64) -> bool {
        self.below(den) < num
    }

    pub fn f64(&mut self) -> f64 {
        (self.next_u64() >> 11) as f64 / (1u64 << 53) as f64
    }

    pub fn pick<'a, T>(&mut self, xs: &'a [T]) -> &'a T {
        &xs[self.usize(xs.len())]
    }

    pub fn fill(&mut self, dest: &mut [u8]) {
        for chunk in dest.chunks_mut(8) {
            let v = self.next_u64().to_le_bytes();
            chunk.copy_from_slice(&v[..chunk.len()]);
        }
    }

    pub fn shuffle<T>(&mut self, xs: &mut [T]) {
        for i in (1..xs.len()).rev() {
            let j = self.usize(i + 1);
            xs.swap(i, j);
        }
    }

    /// Weighted choice: returns index.
    pub fn weighted(&mut self, weights: &[u32]) -> usize {
        let total: u64 = weights.iter().map(|w| *w as u64).sum();
        assert!(total > 0);
        let mut x = self.below(total);
        for (i, w) in weights.iter().enumerate() {
            if x < *w as u64 {
                return i;
            }
            x -= *w as u64;
        }
        weights.len() - 1
    }
}
