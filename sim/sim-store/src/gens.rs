//! Reference generations built by the real builder from the working tree.
use crate::child::{args_of, ChildSpec};
use crate::sandbox::{hashes, load_files, Sandbox};
use serde_json::json;
use std::collections::BTreeMap;

#[derive(Clone)]
pub struct Gen {
    pub name: String,
    pub n: usize,
    pub m: Option<usize>,
    pub files: BTreeMap<String, Vec<u8>>,
    pub hashes: BTreeMap<String, u64>,
}

/// Build the generations with the real `generate_all_circuit_binaries`
/// (fault-free children, in parallel). A failure here is a harness
/// precondition error.
pub fn build_gens(shapes: &[(usize, Option<usize>)]) -> Vec<Gen> {
    let hs: Vec<_> = shapes
        .iter()
        .enumerate()
        .map(|(i, (n, m))| {
            let (n, m) = (*n, *m);
            std::thread::spawn(move || {
                let mut sb = Sandbox::new(&format!("gen{i}"));
                let fs = sb.reset();
                let out = fs.join("bins");
                let run = sb.run_child(ChildSpec {
                    action: "generate".into(),
                    args: args_of(&[("output", json!(out.to_string_lossy())), ("include_prover", json!(true)), ("n", json!(n)), ("m", json!(m))]),
                    ..Default::default()
                });
                match run.result {
                    Some(r) if r.result == "ok" => {}
                    other => qpz_core::harness_error(&format!("the unchanged builder failed to generate ({n},{m:?}) without faults: {:?}", other.map(|r| (r.result, r.error)))),
                }
                let files = load_files(&out);
                let calls = 0u64;
                let _ = calls;
                Gen { name: format!("G({n},{})", m.map(|x| x.to_string()).unwrap_or("-".into())), n, m, hashes: hashes(&files), files }
            })
        })
        .collect();
    hs.into_iter().map(|h| h.join().expect("generation thread panicked")).collect()
}
