//! Child side of SIM-B: runs one real routine of the repository under the
//! filesystem seam with a fault plan and reports what happened.
use crate::fsseam::{self, Fault, TraceEntry};
use serde::{Deserialize, Serialize};
use serde_json::{json, Value};
use std::collections::BTreeMap;
use std::path::{Path, PathBuf};

#[derive(Clone, Debug, Serialize, Deserialize, Default)]
pub struct ChildSpec {
    /// sandbox root: calls under it are events
    pub root: String,
    pub action: String,
    /// action arguments (paths are absolute)
    #[serde(default)]
    pub args: BTreeMap<String, Value>,
    #[serde(default)]
    pub plan: Vec<Fault>,
    /// where the result JSON goes (outside the sandbox root)
    pub out: String,
    /// address-space limit in MiB (0 = none)
    #[serde(default)]
    pub as_limit_mb: u64,
    #[serde(default)]
    pub quiet: bool,
    /// rayon pool size of the child (0 = default 4); children run side by side
    #[serde(default)]
    pub rayon_threads: u32,
}

#[derive(Clone, Debug, Serialize, Deserialize, Default)]
pub struct ChildResult {
    /// ok | err | panic | crash
    pub result: String,
    #[serde(default)]
    pub error: String,
    pub calls: u64,
    #[serde(default)]
    pub trace: Vec<TraceEntry>,
    #[serde(default)]
    pub read_bytes: BTreeMap<String, u64>,
    #[serde(default)]
    pub opened: Vec<String>,
    #[serde(default)]
    pub extra: Value,
}

fn arg_str(spec: &ChildSpec, k: &str) -> String {
    spec.args.get(k).and_then(|v| v.as_str()).unwrap_or_else(|| panic!("child: missing arg {k}")).to_string()
}
fn arg_usize(spec: &ChildSpec, k: &str) -> usize {
    spec.args.get(k).and_then(|v| v.as_u64()).unwrap_or_else(|| panic!("child: missing arg {k}")) as usize
}
fn arg_opt_usize(spec: &ChildSpec, k: &str) -> Option<usize> {
    spec.args.get(k).and_then(|v| v.as_u64()).map(|v| v as usize)
}
fn arg_bool(spec: &ChildSpec, k: &str) -> bool {
    spec.args.get(k).and_then(|v| v.as_bool()).unwrap_or(false)
}

pub fn child_main(spec_path: &str) -> ! {
    let spec: ChildSpec = serde_json::from_str(&std::fs::read_to_string(spec_path).expect("child: spec unreadable")).expect("child: bad spec");
    if spec.quiet {
        // the repository's builders print progress; keep the parent's output readable
        unsafe {
            let devnull = libc::open(b"/dev/null\0".as_ptr() as *const libc::c_char, libc::O_WRONLY);
            if devnull >= 0 {
                libc::dup2(devnull, 1);
                libc::dup2(devnull, 2);
            }
        }
    }
    if spec.as_limit_mb > 0 {
        let lim = libc::rlimit { rlim_cur: spec.as_limit_mb << 20, rlim_max: spec.as_limit_mb << 20 };
        unsafe {
            libc::setrlimit(libc::RLIMIT_AS, &lim);
        }
    }
    let out = spec.out.clone();
    let out2 = out.clone();
    fsseam::install(
        &spec.root,
        spec.plan.clone(),
        Some(Box::new(move |trace, calls| {
            let r = ChildResult { result: "crash".into(), calls, trace: trace.to_vec(), ..Default::default() };
            let _ = std::fs::write(&out2, serde_json::to_vec(&r).unwrap());
        })),
    );
    let res = std::panic::catch_unwind(std::panic::AssertUnwindSafe(|| run_action(&spec)));
    let rep = fsseam::uninstall();
    let (result, error, extra) = match res {
        Ok(Ok(extra)) => ("ok".to_string(), String::new(), extra),
        Ok(Err(e)) => ("err".to_string(), format!("{e:#}"), Value::Null),
        Err(p) => {
            let msg = p.downcast_ref::<String>().cloned().or_else(|| p.downcast_ref::<&str>().map(|s| s.to_string())).unwrap_or_default();
            ("panic".to_string(), msg, Value::Null)
        }
    };
    let r = ChildResult {
        result,
        error,
        calls: rep.calls,
        trace: rep.trace,
        read_bytes: rep.read_bytes.into_iter().collect(),
        opened: rep.opened,
        extra,
    };
    std::fs::write(&out, serde_json::to_vec(&r).unwrap()).expect("child: cannot write result");
    std::process::exit(0);
}

pub fn run_action(spec: &ChildSpec) -> anyhow::Result<Value> {
    match spec.action.as_str() {
        // ---- publisher -------------------------------------------------
        "commit" => {
            let staging = PathBuf::from(arg_str(spec, "staging"));
            let output = PathBuf::from(arg_str(spec, "output"));
            circuit_builder::verif_commit_staging_dir(&staging, &output)?;
            Ok(Value::Null)
        }
        // the builder's own sequence without the multi-second circuit build: create the staging directory
        // with the real routine, fill it with a prepared set, publish it
        "stage_and_commit" => {
            let output = PathBuf::from(arg_str(spec, "output"));
            let source = PathBuf::from(arg_str(spec, "source"));
            let staging = circuit_builder::verif_create_staging_dir(&output)?;
            let mut names: Vec<_> = std::fs::read_dir(&source)?.flatten().map(|e| e.file_name()).collect();
            names.sort();
            for n in names {
                std::fs::write(staging.join(&n), std::fs::read(source.join(&n))?)?;
            }
            circuit_builder::verif_commit_staging_dir(&staging, &output)?;
            Ok(Value::Null)
        }
        "create_staging" => {
            let output = PathBuf::from(arg_str(spec, "output"));
            let p = circuit_builder::verif_create_staging_dir(&output)?;
            Ok(json!({"staging": p.to_string_lossy()}))
        }
        "generate" => {
            let output = PathBuf::from(arg_str(spec, "output"));
            circuit_builder::generate_all_circuit_binaries(&output, arg_bool(spec, "include_prover"), arg_usize(spec, "n"), arg_opt_usize(spec, "m"))?;
            Ok(Value::Null)
        }
        // ---- in-place, documented non-atomic stage helpers ---------------
        "stage_leaf" => {
            circuit_builder::generate_circuit_binaries(Path::new(&arg_str(spec, "dir")))?;
            Ok(Value::Null)
        }
        "stage_private" => {
            wormhole_aggregator::private_batch::circuit::build::generate_private_batch_circuit_binaries(Path::new(&arg_str(spec, "dir")), arg_usize(spec, "n"), arg_bool(spec, "include_prover"))?;
            Ok(Value::Null)
        }
        "stage_public" => {
            wormhole_aggregator::public_batch::circuit::generate_public_batch_circuit_binaries(Path::new(&arg_str(spec, "dir")), arg_usize(spec, "m"), arg_usize(spec, "n"))?;
            Ok(Value::Null)
        }
        "save_config" => {
            wormhole_aggregator::CircuitBinsConfig::new(arg_usize(spec, "n"), arg_opt_usize(spec, "m"))?.save(Path::new(&arg_str(spec, "dir")))?;
            Ok(Value::Null)
        }
        other => crate::loaders::run(other, spec),
    }
}

pub fn args_of(pairs: &[(&str, Value)]) -> BTreeMap<String, Value> {
    pairs.iter().map(|(k, v)| (k.to_string(), v.clone())).collect()
}
