//! C16 / C17 — consumers booting from whatever is on disk: storage faults at
//! rest, I/O faults at load time, every loader and constructor.
use crate::child::{args_of, ChildResult, ChildSpec};
use crate::fsseam::Fault;
use crate::gens::Gen;
use crate::sandbox::{write_set, Sandbox};
use plonky2::field::types::{Field, PrimeField64};
use plonky2::plonk::circuit_data::{CommonCircuitData, VerifierCircuitData, VerifierOnlyCircuitData};
use plonky2::plonk::proof::ProofWithPublicInputs;
use plonky2::util::serialization::DefaultGateSerializer;
use qpz_core::evidence::Counters;
use qpz_core::rng::Rng;
use serde::{Deserialize, Serialize};
use serde_json::json;
use std::collections::BTreeMap;
use std::path::Path;
use zk_circuits_common::circuit::{C, D, F};

pub type Proof = ProofWithPublicInputs<F, C, D>;

pub const AGG_CAP: u64 = 64 * 1024 * 1024;
pub const VERIFIER_CAP: u64 = 1024 * 1024;

/// A storage fault at rest, applied to the bins directory before a consumer boots.
#[derive(Clone, Debug, Serialize, Deserialize, PartialEq, Eq, Hash)]
#[serde(tag = "kind", rename_all = "snake_case")]
pub enum SFault {
    BitFlip { file: String, offset: u64, bit: u8 },
    Truncate { file: String, len: u64 },
    Extend { file: String, n: u64, random: bool },
    ZeroFill { file: String, offset: u64, len: u64 },
    /// prefix of this generation's file, suffix of another generation's
    Torn { file: String, from_gen: usize, keep: u64 },
    /// the file silently keeps the content another generation had
    Lost { file: String, from_gen: usize },
    /// content of artifact `src` under the name `file`
    Misdirect { file: String, src: String },
    Missing { file: String },
    /// sparse file of `bytes` bytes (content prefix preserved)
    Oversize { file: String, bytes: u64 },
    /// an extra (never legitimately read) prover artifact with poison content
    ExtraProver { name: String, big: bool },
    /// config.json variants: other_shape(n,m) | legacy_key | torn | garbage
    Config { variant: String, n: usize, m: Option<usize> },
    /// a special proof (see `Refs::specials`) under a template name
    Special { file: String, which: String },
    /// overwrite public-input felt(s) of the template stored in `file`
    EditPi { file: String, edits: Vec<(usize, u64)> },
    /// both verifier artifacts of a family (leaf | private | public) replaced by the SAME circuit built
    /// under another circuit configuration
    OtherConfig { family: String },
}

impl SFault {
    pub fn kind_name(&self) -> &'static str {
        match self {
            SFault::BitFlip { .. } => "bitflip",
            SFault::Truncate { .. } => "truncate",
            SFault::Extend { .. } => "extend",
            SFault::ZeroFill { .. } => "zerofill",
            SFault::Torn { .. } => "torn_write",
            SFault::Lost { .. } => "lost_write",
            SFault::Misdirect { .. } => "misdirected_write",
            SFault::Missing { .. } => "missing_file",
            SFault::Oversize { .. } => "oversize_sparse",
            SFault::ExtraProver { .. } => "extra_prover_file",
            SFault::Config { .. } => "config_variant",
            SFault::Special { .. } => "misdirected_real_proof",
            SFault::EditPi { .. } => "edited_public_inputs",
            SFault::OtherConfig { .. } => "other_circuit_config",
        }
    }
    pub fn file(&self) -> String {
        match self {
            SFault::BitFlip { file, .. } | SFault::Truncate { file, .. } | SFault::Extend { file, .. } | SFault::ZeroFill { file, .. } | SFault::Torn { file, .. } | SFault::Lost { file, .. } | SFault::Misdirect { file, .. } | SFault::Missing { file } | SFault::Oversize { file, .. } | SFault::Special { file, .. } | SFault::EditPi { file, .. } => file.clone(),
            SFault::ExtraProver { name, .. } => name.clone(),
            SFault::Config { .. } => "config.json".into(),
            SFault::OtherConfig { family } => format!("{family}-pair"),
        }
    }
}

/// Reference material: what the working tree generates, and valid-but-wrong proofs.
pub struct Refs {
    pub gens: Vec<Gen>,
    pub leaf: VerifierCircuitData<F, C, D>,
    /// canonical private-batch verifier data per n (from the reference generations)
    pub pb: BTreeMap<usize, VerifierCircuitData<F, C, D>>,
    /// name -> serialized proof
    pub specials: BTreeMap<String, Vec<u8>>,
}

fn load_vd(common: &[u8], vo: &[u8]) -> VerifierCircuitData<F, C, D> {
    VerifierCircuitData {
        common: CommonCircuitData::from_bytes(common.to_vec(), &DefaultGateSerializer).expect("reference common data must parse"),
        verifier_only: VerifierOnlyCircuitData::<C, D>::from_bytes(vo.to_vec()).expect("reference verifier data must parse"),
    }
}

impl Refs {
    pub fn new(gens: Vec<Gen>) -> Refs {
        let g0 = &gens[0];
        let leaf = load_vd(&g0.files["common.bin"], &g0.files["verifier.bin"]);
        let mut pb = BTreeMap::new();
        for g in &gens {
            pb.entry(g.n).or_insert_with(|| load_vd(&g.files["private_batch_common.bin"], &g.files["private_batch_verifier.bin"]));
        }
        Refs { gens, leaf, pb, specials: BTreeMap::new() }
    }
    pub fn gen_for(&self, n: usize, m: Option<usize>) -> Option<&Gen> {
        self.gens.iter().find(|g| g.n == n && g.m == m)
    }
    pub fn gen_for_n(&self, n: usize) -> Option<&Gen> {
        self.gens.iter().find(|g| g.n == n)
    }
}

fn try_parse_proof(bytes: &[u8], common: &CommonCircuitData<F, D>) -> Option<Proof> {
    std::panic::catch_unwind(std::panic::AssertUnwindSafe(|| Proof::from_bytes(bytes.to_vec(), common).ok())).ok().flatten()
}

fn pis(p: &Proof) -> Vec<u64> {
    p.public_inputs.iter().map(|f| f.to_canonical_u64()).collect()
}

/// C16's predicate for a leaf padding template, evaluated by the harness on the
/// bytes at the documented public-input offsets, independently of the code under test.
pub fn leaf_template_ok(bytes: &[u8], refs: &Refs) -> bool {
    let Some(p) = try_parse_proof(bytes, &refs.leaf.common) else { return false };
    let v = pis(&p);
    if v.len() != 21 {
        return false;
    }
    let zero = |r: std::ops::Range<usize>| v[r].iter().all(|x| *x == 0);
    // asset(0) out1(1) out2(2) fee(3) nullifier(4..8) exit1(8..12) exit2(12..16) block_hash(16..20) block_number(20)
    if !(zero(16..20) && zero(1..3) && zero(0..1) && zero(8..16)) {
        return false;
    }
    std::panic::catch_unwind(std::panic::AssertUnwindSafe(|| refs.leaf.verify(p).is_ok())).unwrap_or(false)
}

/// C16's predicate for a private-batch padding template of shape `n`.
pub fn pb_template_ok(bytes: &[u8], n: usize, refs: &Refs) -> bool {
    let Some(vd) = refs.pb.get(&n) else { return false };
    let Some(p) = try_parse_proof(bytes, &vd.common) else { return false };
    let v = pis(&p);
    if v.len() != 21 * n + 8 {
        return false;
    }
    // [num_exit_slots, asset, fee, block_hash(4), block_number, [sum, account(4)] * 2n, nullifier(4) * n, padding]
    if !v[3..7].iter().all(|x| *x == 0) {
        return false;
    }
    if !v[8..8 + 10 * n].iter().all(|x| *x == 0) {
        return false;
    }
    std::panic::catch_unwind(std::panic::AssertUnwindSafe(|| vd.verify(p).is_ok())).unwrap_or(false)
}

/// parse-and-reserialise image of a public-batch artifact pair, or None
fn reserialise_public(common: &[u8], vo: &[u8]) -> Option<(Vec<u8>, Vec<u8>)> {
    std::panic::catch_unwind(|| {
        let c = CommonCircuitData::<F, D>::from_bytes(common.to_vec(), &DefaultGateSerializer).ok()?;
        let v = VerifierOnlyCircuitData::<C, D>::from_bytes(vo.to_vec()).ok()?;
        Some((c.to_bytes(&DefaultGateSerializer).ok()?, v.to_bytes().ok()?))
    })
    .ok()
    .flatten()
}

pub fn edit_pis(bytes: &[u8], common: &CommonCircuitData<F, D>, edits: &[(usize, u64)]) -> Option<Vec<u8>> {
    let mut p = try_parse_proof(bytes, common)?;
    for (i, v) in edits {
        if *i < p.public_inputs.len() {
            p.public_inputs[*i] = F::from_canonical_u64(*v);
        }
    }
    Some(p.to_bytes())
}

/// Apply one storage fault to `dir` (which holds generation `gi`).
pub fn apply_fault(dir: &Path, gi: usize, f: &SFault, refs: &Refs, rng: &mut Rng) {
    let p = |n: &str| dir.join(n);
    let rd = |n: &str| std::fs::read(dir.join(n)).unwrap_or_default();
    match f {
        SFault::BitFlip { file, offset, bit } => {
            let mut b = rd(file);
            if !b.is_empty() {
                let o = (*offset as usize) % b.len();
                b[o] ^= 1 << (bit % 8);
                std::fs::write(p(file), b).unwrap();
            }
        }
        SFault::Truncate { file, len } => {
            let b = rd(file);
            let l = (*len as usize).min(b.len());
            std::fs::write(p(file), &b[..l]).unwrap();
        }
        SFault::Extend { file, n, random } => {
            let mut b = rd(file);
            for _ in 0..*n {
                b.push(if *random { rng.below(256) as u8 } else { 0 });
            }
            std::fs::write(p(file), b).unwrap();
        }
        SFault::ZeroFill { file, offset, len } => {
            let mut b = rd(file);
            if !b.is_empty() {
                let o = (*offset as usize) % b.len();
                let e = (o + *len as usize).min(b.len());
                for x in &mut b[o..e] {
                    *x = 0;
                }
                std::fs::write(p(file), b).unwrap();
            }
        }
        SFault::Torn { file, from_gen, keep } => {
            let new = rd(file);
            let old = refs.gens[*from_gen].files.get(file).cloned().unwrap_or_default();
            let k = (*keep as usize).min(new.len());
            let mut b = new[..k].to_vec();
            if old.len() > k {
                b.extend_from_slice(&old[k..]);
            }
            std::fs::write(p(file), b).unwrap();
        }
        SFault::Lost { file, from_gen } => match refs.gens[*from_gen].files.get(file) {
            Some(b) => std::fs::write(p(file), b).unwrap(),
            None => {
                let _ = std::fs::remove_file(p(file));
            }
        },
        SFault::Misdirect { file, src } => {
            let b = rd(src);
            std::fs::write(p(file), b).unwrap();
        }
        SFault::Missing { file } => {
            let _ = std::fs::remove_file(p(file));
        }
        SFault::Oversize { file, bytes } => {
            let f = std::fs::OpenOptions::new().write(true).create(true).open(p(file)).unwrap();
            f.set_len(*bytes).unwrap();
        }
        SFault::ExtraProver { name, big } => {
            let f = std::fs::File::create(p(name)).unwrap();
            use std::io::Write;
            let mut f = f;
            f.write_all(b"POISONED PROVER ARTIFACT - must never be read").unwrap();
            if *big {
                f.set_len(AGG_CAP + 4096).unwrap();
            }
        }
        SFault::Config { variant, n, m } => {
            let body = match variant.as_str() {
                "other_shape" => serde_json::to_string_pretty(&json!({"num_leaf_proofs": n, "num_private_batch_proofs": m})).unwrap(),
                "legacy_key" => serde_json::to_string_pretty(&json!({"num_leaf_proofs": n, "num_layer0_proofs": m})).unwrap(),
                "torn" => {
                    let s = String::from_utf8_lossy(&rd("config.json")).into_owned();
                    s[..s.len() / 2].to_string()
                }
                "zero" => "{\"num_leaf_proofs\": 0, \"num_private_batch_proofs\": 1}".into(),
                "huge" => "{\"num_leaf_proofs\": 100000, \"num_private_batch_proofs\": 1}".into(),
                _ => "\u{0}\u{1}garbage".into(),
            };
            std::fs::write(p("config.json"), body).unwrap();
        }
        SFault::Special { file, which } => {
            std::fs::write(p(file), &refs.specials[which]).unwrap();
        }
        SFault::OtherConfig { family } => {
            let g = &refs.gens[gi];
            let (key, cf, vf) = match family.as_str() {
                "leaf" => ("othercfg_leaf".to_string(), "common.bin", "verifier.bin"),
                "private" => (format!("othercfg_private_n{}", g.n), "private_batch_common.bin", "private_batch_verifier.bin"),
                _ => (format!("othercfg_public_n{}_m{}", g.n, g.m.unwrap_or(0)), "public_batch_common.bin", "public_batch_verifier.bin"),
            };
            if let (Some(c), Some(v)) = (refs.specials.get(&format!("{key}_common")), refs.specials.get(&format!("{key}_verifier"))) {
                std::fs::write(p(cf), c).unwrap();
                std::fs::write(p(vf), v).unwrap();
            }
        }
        SFault::EditPi { file, edits } => {
            let g = &refs.gens[gi];
            let common = if file == "dummy_proof.bin" { &refs.leaf.common } else { &refs.pb[&g.n].common };
            if let Some(b) = edit_pis(&rd(file), common, edits) {
                std::fs::write(p(file), b).unwrap();
            }
        }
    }
}

/// One consumer boot.
#[derive(Clone, Debug, Serialize, Deserialize)]
pub struct LoadCase {
    /// generation in the directory before faults
    pub gen: usize,
    pub faults: Vec<SFault>,
    pub loader: String,
    /// I/O faults at load time
    #[serde(default)]
    pub io_plan: Vec<Fault>,
    /// seed for random bytes used by faults
    #[serde(default)]
    pub fseed: u64,
}

#[derive(Clone, Debug, Default)]
pub struct LoadEval {
    pub kind: String,
    pub error: String,
    pub findings: Vec<(String, String)>,
    pub probes: Counters,
    pub faults_fired: Counters,
    pub harness_error: Option<String>,
    pub accepted: bool,
    pub state: u64,
}

pub const LOADERS_C17: &[&str] = &["load_leaf_verifier", "load_config", "load_private_dir", "load_private_files", "load_public_dir", "load_public_files", "load_aggregator", "stage_private", "stage_public", "load_leaf_verifier_bytes", "load_private_bytes", "load_public_bytes"];

/// byte constructors receive slices the harness read itself: "bytes read from an over-cap file"
/// says nothing about them (acceptance still does)
pub fn harness_reads_files(loader: &str) -> bool {
    loader.ends_with("_bytes") || loader == "load_private_new" || loader == "load_public_new"
}

/// files a loader legitimately reads
pub fn loader_reads(loader: &str) -> &'static [&'static str] {
    match loader {
        "load_leaf_verifier" | "load_leaf_verifier_bytes" => &["verifier.bin", "common.bin"],
        "load_config" => &["config.json"],
        "load_private_dir" | "private_commit_prove" => &["config.json", "common.bin", "verifier.bin", "dummy_proof.bin"],
        "load_private_files" | "load_private_bytes" | "stage_private" => &["common.bin", "verifier.bin", "dummy_proof.bin"],
        "load_private_new" => &["dummy_proof.bin"],
        "load_public_dir" | "public_commit_prove" => &["config.json", "private_batch_common.bin", "private_batch_verifier.bin", "dummy_private_batch_proof.bin"],
        "load_public_files" | "load_public_bytes" => &["private_batch_common.bin", "private_batch_verifier.bin", "dummy_private_batch_proof.bin"],
        "load_public_new" => &["dummy_private_batch_proof.bin"],
        "load_aggregator" | "load_aggregator_new" => &["config.json", "private_batch_common.bin", "private_batch_verifier.bin", "public_batch_common.bin", "public_batch_verifier.bin", "dummy_private_batch_proof.bin"],
        "stage_public" => &["private_batch_common.bin", "private_batch_verifier.bin"],
        _ => &[],
    }
}

/// does the loader take the shape from config.json (true) or from its arguments (false)?
fn shape_from_config(loader: &str) -> bool {
    matches!(loader, "load_private_dir" | "load_public_dir" | "load_aggregator" | "load_aggregator_new" | "private_commit_prove" | "public_commit_prove")
}

fn parse_config(bytes: &[u8]) -> Option<(usize, Option<usize>)> {
    let v: serde_json::Value = serde_json::from_slice(bytes).ok()?;
    let n = v.get("num_leaf_proofs")?.as_u64()? as usize;
    let m = v.get("num_private_batch_proofs").or_else(|| v.get("num_layer0_proofs")).and_then(|x| x.as_u64()).map(|x| x as usize);
    Some((n, m))
}

pub fn run_load(sb: &mut Sandbox, refs: &Refs, case: &LoadCase, extra_args: &[(&str, serde_json::Value)]) -> LoadEval {
    let mut ev = LoadEval::default();
    let fs = sb.reset();
    let dir = fs.join("bins");
    let g = &refs.gens[case.gen];
    write_set(&dir, &g.files);
    let mut frng = Rng::new(case.fseed);
    for f in &case.faults {
        apply_fault(&dir, case.gen, f, refs, &mut frng);
        ev.faults_fired.inc(f.kind_name());
    }
    // what is on disk when the consumer boots
    let disk: BTreeMap<String, Vec<u8>> = {
        let mut m = BTreeMap::new();
        for e in std::fs::read_dir(&dir).unwrap().flatten() {
            let md = e.metadata().unwrap();
            let name = e.file_name().to_string_lossy().into_owned();
            if md.len() <= 8 * 1024 * 1024 {
                m.insert(name, std::fs::read(e.path()).unwrap_or_default());
            } else {
                m.insert(name, vec![]);
            }
        }
        m
    };
    let sizes: BTreeMap<String, u64> = std::fs::read_dir(&dir).unwrap().flatten().map(|e| (e.file_name().to_string_lossy().into_owned(), e.metadata().map(|m| m.len()).unwrap_or(0))).collect();
    let before_outputs: BTreeMap<String, u64> = ["private_batch_common.bin", "private_batch_verifier.bin", "dummy_private_batch_proof.bin", "public_batch_common.bin", "public_batch_verifier.bin"].iter().map(|n| (n.to_string(), qpz_core::rng::hash_bytes(disk.get(*n).map(|v| v.as_slice()).unwrap_or(&[0xff])))).collect();

    let mut args = vec![("dir", json!(dir.to_string_lossy())), ("n", json!(g.n)), ("m", json!(g.m.unwrap_or(1))), ("include_prover", json!(true))];
    for (k, v) in extra_args {
        args.push((k, v.clone()));
    }
    let run = sb.run_child(ChildSpec { action: case.loader.clone(), args: args_of(&args), plan: case.io_plan.clone(), as_limit_mb: 24 * 1024, rayon_threads: 1, ..Default::default() });
    ev.kind = run.kind().to_string();
    let res: ChildResult = run.result.clone().unwrap_or_default();
    ev.error = res.error.clone();
    for t in &res.trace {
        if let Some(inj) = &t.injected {
            ev.faults_fired.inc(&format!("io_{}@{}", inj.replace(':', "_"), t.op));
        }
    }
    match ev.kind.as_str() {
        "died" => {
            // abnormal termination (abort, allocation failure under the address-space limit): not acceptance
            ev.probes.inc("loader_died_abnormally");
            return ev;
        }
        "panic" => {
            ev.probes.inc("loader_panicked");
            return ev;
        }
        "crash" => {
            ev.probes.inc("loader_crash_fault");
            return ev;
        }
        _ => {}
    }
    ev.accepted = ev.kind == "ok";
    ev.probes.inc(&format!("{}_{}", case.loader, ev.kind));

    // ---- L-noprover ----
    for (path, n) in &res.read_bytes {
        let name = path.rsplit('/').next().unwrap_or(path);
        if name.contains("prover") && name.ends_with(".bin") && *n > 0 {
            ev.findings.push(("load:prover-artifact-read".into(), format!("{} read {n} bytes from {name}", case.loader)));
        }
    }
    for path in &res.opened {
        let name = path.rsplit('/').next().unwrap_or(path);
        if name.contains("prover") && name.ends_with(".bin") {
            ev.probes.inc("prover_artifact_opened");
        }
    }
    // ---- L-cap ----
    let cap = if case.loader.starts_with("load_leaf_verifier") { VERIFIER_CAP } else { AGG_CAP };
    for (name, size) in &sizes {
        if *size > cap && loader_reads(&case.loader).contains(&name.as_str()) {
            let read = res.read_bytes.iter().filter(|(p, _)| p.rsplit('/').next() == Some(name.as_str())).map(|(_, n)| *n).sum::<u64>();
            if read > 0 && !harness_reads_files(&case.loader) {
                ev.findings.push(("load:oversize-file-read".into(), format!("{} read {read} bytes of {name}, which is {size} bytes (cap {cap})", case.loader)));
            }
            // the loader only has to refuse if it reached this file
            let reached = res.trace.iter().any(|t| t.path.ends_with(name.as_str()));
            // A slice cap exists (and is claimed) for the leaf verifier's byte constructor, which hashes its
            // input; the aggregator's byte constructors take memory the caller already holds and pin it by
            // equality or parse it, and the property's cap is about what a loader reads or hashes - demanding a
            // refusal there would ask for more than the property states (a check of mine did, see DESIGN 16.7)
            let slice_cap_claimed = !harness_reads_files(&case.loader) || case.loader == "load_leaf_verifier_bytes";
            if reached && ev.accepted && slice_cap_claimed {
                ev.findings.push(("load:oversize-file-accepted".into(), format!("{} accepted although {name} is {size} bytes (cap {cap})", case.loader)));
            }
            if reached {
                ev.probes.inc("oversize_rejected_before_read");
            }
        }
    }
    // ---- L-pin: acceptance implies every artifact read is canonical for the shape in use ----
    if ev.accepted {
        let cfg_shape = disk.get("config.json").and_then(|b| parse_config(b));
        let (n, m) = if shape_from_config(&case.loader) {
            match cfg_shape {
                Some(s) => s,
                None => {
                    ev.findings.push(("load:accepted-without-config".into(), format!("{} accepted a directory whose config.json does not parse", case.loader)));
                    (g.n, g.m)
                }
            }
        } else {
            (g.n, g.m)
        };
        let read_files: Vec<String> = res.read_bytes.iter().filter(|(_, n)| **n > 0).map(|(p, _)| p.rsplit('/').next().unwrap_or(p).to_string()).collect();
        for name in &read_files {
            let bytes = disk.get(name).cloned().unwrap_or_default();
            let verdict: Option<bool> = match name.as_str() {
                "common.bin" | "verifier.bin" => Some(bytes == refs.gens[0].files[name]),
                "private_batch_common.bin" | "private_batch_verifier.bin" => refs.gen_for_n(n).map(|r| bytes == r.files[name]),
                "public_batch_common.bin" | "public_batch_verifier.bin" => match refs.gen_for(n, m) {
                    Some(r) if r.files.contains_key("public_batch_common.bin") => {
                        let on_disk = reserialise_public(disk.get("public_batch_common.bin").map(|v| v.as_slice()).unwrap_or(&[]), disk.get("public_batch_verifier.bin").map(|v| v.as_slice()).unwrap_or(&[]));
                        let reference = reserialise_public(&r.files["public_batch_common.bin"], &r.files["public_batch_verifier.bin"]);
                        Some(on_disk.is_some() && on_disk == reference)
                    }
                    _ => None,
                },
                "dummy_proof.bin" => Some(leaf_template_ok(&bytes, refs)),
                "dummy_private_batch_proof.bin" => {
                    if refs.pb.contains_key(&n) {
                        Some(pb_template_ok(&bytes, n, refs))
                    } else {
                        None
                    }
                }
                _ => Some(true),
            };
            match verdict {
                Some(true) => {}
                Some(false) => {
                    let cls = if name.starts_with("dummy_") { "load:bad-template-accepted" } else { "load:non-canonical-artifact-accepted" };
                    ev.findings.push((cls.into(), format!("{} returned Ok although {name} (as read from disk, shape ({n},{m:?})) is not canonical; faults {:?}", case.loader, case.faults)));
                }
                None => ev.probes.inc("acceptance_unjudgeable_unknown_shape"),
            }
        }
        // a stage must not have baked a rejected template... (it was accepted here, nothing to check)
    } else if (case.loader == "stage_private" || case.loader == "stage_public") && case.io_plan.is_empty() {
        // C16: a rejecting build stage writes nothing
        let names: &[&str] = if case.loader == "stage_private" { &["private_batch_common.bin", "private_batch_verifier.bin", "dummy_private_batch_proof.bin"] } else { &["public_batch_common.bin", "public_batch_verifier.bin"] };
        for n in names {
            let now = std::fs::read(dir.join(n)).ok();
            let h = qpz_core::rng::hash_bytes(now.as_deref().unwrap_or(&[0xff]));
            if h != before_outputs[*n] {
                ev.findings.push(("load:rejecting-stage-wrote-output".into(), format!("{} failed ({}) but changed {n}", case.loader, crate::c23::norm_err(&res.error))));
            }
        }
    }
    ev.state = qpz_core::rng::hash_str(&format!("{}|{}|{:?}", case.loader, ev.kind, case.faults.iter().map(|f| (f.kind_name(), f.file())).collect::<Vec<_>>()));
    ev
}

// ------------------------------------------------------------------ case generation

fn positions(len: u64) -> Vec<u64> {
    let mut v = vec![0, 4, len / 2, len.saturating_sub(1)];
    v.dedup();
    v
}

/// Every storage-fault kind on `file` (content `len` bytes) with a canonical position set.
pub fn file_faults(file: &str, len: u64, other_gen: usize, other_file: &str, cap: u64) -> Vec<SFault> {
    let f = file.to_string();
    let mut v = vec![];
    for o in positions(len) {
        v.push(SFault::BitFlip { file: f.clone(), offset: o, bit: (o % 8) as u8 });
    }
    v.push(SFault::Truncate { file: f.clone(), len: 0 });
    v.push(SFault::Truncate { file: f.clone(), len: len / 2 });
    v.push(SFault::Truncate { file: f.clone(), len: len.saturating_sub(1) });
    v.push(SFault::Extend { file: f.clone(), n: 8, random: false });
    v.push(SFault::Extend { file: f.clone(), n: 64, random: true });
    v.push(SFault::ZeroFill { file: f.clone(), offset: len / 3, len: 64 });
    v.push(SFault::Torn { file: f.clone(), from_gen: other_gen, keep: len / 2 });
    v.push(SFault::Lost { file: f.clone(), from_gen: other_gen });
    v.push(SFault::Misdirect { file: f.clone(), src: other_file.to_string() });
    v.push(SFault::Missing { file: f.clone() });
    v.push(SFault::Oversize { file: f.clone(), bytes: cap + 1 });
    v.push(SFault::Oversize { file: f.clone(), bytes: cap * 64 });
    v
}

pub fn config_faults() -> Vec<SFault> {
    vec![
        SFault::Config { variant: "other_shape".into(), n: 2, m: Some(1) },
        SFault::Config { variant: "other_shape".into(), n: 1, m: Some(2) },
        SFault::Config { variant: "other_shape".into(), n: 1, m: None },
        SFault::Config { variant: "legacy_key".into(), n: 1, m: Some(1) },
        SFault::Config { variant: "legacy_key".into(), n: 2, m: Some(1) },
        SFault::Config { variant: "torn".into(), n: 0, m: None },
        SFault::Config { variant: "zero".into(), n: 0, m: None },
        SFault::Config { variant: "huge".into(), n: 0, m: None },
        SFault::Config { variant: "garbage".into(), n: 0, m: None },
    ]
}

pub fn prover_poison() -> Vec<SFault> {
    vec![
        SFault::ExtraProver { name: "prover.bin".into(), big: false },
        SFault::ExtraProver { name: "private_batch_prover.bin".into(), big: false },
        SFault::ExtraProver { name: "public_batch_prover.bin".into(), big: true },
    ]
}

/// The complete C17 enumeration: every loader x every file it reads x every fault kind.
pub fn c17_enumeration(refs: &Refs) -> Vec<LoadCase> {
    let mut cases = vec![];
    let gi = 0usize; // directory holds G(1,1)
    let other = 1usize; // G(2,1)
    let g = &refs.gens[gi];
    for loader in LOADERS_C17 {
        // fault-free boot (L-sane) and poison prover artifacts next to the genuine set (L-noprover)
        cases.push(LoadCase { gen: gi, faults: vec![], loader: loader.to_string(), io_plan: vec![], fseed: 1 });
        cases.push(LoadCase { gen: gi, faults: prover_poison(), loader: loader.to_string(), io_plan: vec![], fseed: 1 });
        let cap = if loader.starts_with("load_leaf_verifier") { VERIFIER_CAP } else { AGG_CAP };
        for (family, marker) in [("leaf", "common.bin"), ("private", "private_batch_common.bin"), ("public", "public_batch_common.bin")] {
            if loader_reads(loader).contains(&marker) {
                cases.push(LoadCase { gen: gi, faults: vec![SFault::OtherConfig { family: family.into() }], loader: loader.to_string(), io_plan: vec![], fseed: 1 });
            }
        }
        for file in loader_reads(loader) {
            if *file == "config.json" {
                for f in config_faults() {
                    cases.push(LoadCase { gen: gi, faults: vec![f], loader: loader.to_string(), io_plan: vec![], fseed: 1 });
                }
                for f in [SFault::Missing { file: "config.json".into() }, SFault::Oversize { file: "config.json".into(), bytes: cap + 1 }] {
                    cases.push(LoadCase { gen: gi, faults: vec![f], loader: loader.to_string(), io_plan: vec![], fseed: 1 });
                }
                continue;
            }
            let len = g.files[*file].len() as u64;
            // misdirected write: the sibling artifact of the same pair, or the other layer's file
            let other_file = match *file {
                "common.bin" => "private_batch_common.bin",
                "verifier.bin" => "private_batch_verifier.bin",
                "private_batch_common.bin" => "public_batch_common.bin",
                "private_batch_verifier.bin" => "verifier.bin",
                "public_batch_common.bin" => "private_batch_common.bin",
                "public_batch_verifier.bin" => "private_batch_verifier.bin",
                "dummy_proof.bin" => "dummy_private_batch_proof.bin",
                _ => "dummy_proof.bin",
            };
            for f in file_faults(file, len, other, other_file, cap) {
                // a byte constructor gets the whole file as a slice: keep that slice at cap + 1
                if harness_reads_files(loader) && matches!(&f, SFault::Oversize { bytes, .. } if *bytes > cap + 1) {
                    continue;
                }
                cases.push(LoadCase { gen: gi, faults: vec![f], loader: loader.to_string(), io_plan: vec![], fseed: 7 });
            }
        }
    }
    cases
}

/// Seeded exploration: multi-fault directories (mixed generations as a crashed in-place
/// regeneration leaves them), other-shape substitutions and I/O faults at load time.
pub fn c17_random_case(refs: &Refs, rng: &mut Rng) -> LoadCase {
    let loader = rng.pick(LOADERS_C17).to_string();
    let gi = rng.usize(3);
    let g = &refs.gens[gi];
    let mut faults = vec![];
    let names: Vec<&String> = g.files.keys().collect();
    match rng.below(4) {
        0 => {
            // mixed generations: a random subset of files kept from another generation, maybe one torn
            let other = (gi + 1 + rng.usize(2)) % 3;
            for n in &names {
                if rng.chance(1, 2) {
                    faults.push(SFault::Lost { file: (*n).clone(), from_gen: other });
                }
            }
            if rng.chance(1, 3) {
                let n = *rng.pick(&names);
                faults.push(SFault::Torn { file: n.clone(), from_gen: other, keep: rng.below(g.files[n].len() as u64 + 1) });
            }
        }
        1 => {
            // whole other shape with this shape's config, or the reverse
            let other = (gi + 1 + rng.usize(2)) % 3;
            if rng.chance(1, 2) {
                for n in &names {
                    if n.as_str() != "config.json" {
                        faults.push(SFault::Lost { file: (*n).clone(), from_gen: other });
                    }
                }
            } else {
                let o = &refs.gens[other];
                faults.push(SFault::Config { variant: if rng.chance(1, 3) { "legacy_key".into() } else { "other_shape".into() }, n: o.n, m: o.m });
            }
        }
        _ => {
            let reads = loader_reads(&loader);
            let k = rng.range(1, 3);
            for _ in 0..k {
                let file = rng.pick(reads).to_string();
                if file == "config.json" {
                    faults.push(rng.pick(&config_faults()).clone());
                    continue;
                }
                let len = g.files[&file].len() as u64;
                let f = match rng.below(6) {
                    0 | 1 => SFault::BitFlip { file, offset: rng.below(len.max(1)), bit: rng.below(8) as u8 },
                    2 => SFault::Truncate { file, len: rng.below(len + 1) },
                    3 => SFault::Extend { file, n: rng.range(1, 4096), random: rng.chance(1, 2) },
                    4 => SFault::ZeroFill { file, offset: rng.below(len.max(1)), len: rng.range(1, 512) },
                    _ => SFault::Torn { file, from_gen: (gi + 1) % 3, keep: rng.below(len + 1) },
                };
                faults.push(f);
            }
        }
    }
    if rng.chance(1, 3) {
        faults.extend(prover_poison());
    }
    // I/O faults at load time
    let mut io_plan = vec![];
    if rng.chance(1, 3) {
        let kinds = [crate::fsseam::FaultKind::Errno { errno: 5 }, crate::fsseam::FaultKind::Errno { errno: 4 }, crate::fsseam::FaultKind::ShortRead, crate::fsseam::FaultKind::Errno { errno: 24 }];
        io_plan.push(Fault { call: rng.below(24), kind: rng.pick(&kinds).clone() });
    }
    LoadCase { gen: gi, faults, loader, io_plan, fseed: rng.next_u64() }
}

pub const LEAF_TEMPLATE_ENTRY_POINTS: &[&str] = &["load_private_new", "load_private_bytes", "load_private_files", "load_private_dir", "stage_private"];
pub const PB_TEMPLATE_ENTRY_POINTS: &[&str] = &["load_public_new", "load_public_bytes", "load_public_files", "load_public_dir", "load_aggregator_new", "load_aggregator"];

/// Template faults for C16 (DESIGN.md 9/C16).
pub fn leaf_template_faults(len: u64, positions_seed: &mut Rng, extra_positions: usize) -> Vec<SFault> {
    let f = "dummy_proof.bin".to_string();
    let mut v = vec![
        SFault::Special { file: f.clone(), which: "real_leaf".into() },
        SFault::Special { file: f.clone(), which: "real_leaf_zero_out".into() },
        SFault::Special { file: f.clone(), which: "dummy_asset1".into() },
        SFault::Special { file: f.clone(), which: "dummy_exit1".into() },
        SFault::Special { file: f.clone(), which: "dummy_exit2".into() },
        SFault::Special { file: f.clone(), which: "dummy_asset_high".into() },
        SFault::Special { file: f.clone(), which: "dummy_exit1_limb0".into() },
        SFault::Special { file: f.clone(), which: "dummy_exit1_limb1".into() },
        SFault::Special { file: f.clone(), which: "dummy_exit1_limb2".into() },
        SFault::Special { file: f.clone(), which: "dummy_exit1_limb3".into() },
        SFault::Special { file: f.clone(), which: "dummy_exit2_limb0".into() },
        SFault::Special { file: f.clone(), which: "dummy_exit2_limb1".into() },
        SFault::Special { file: f.clone(), which: "dummy_exit2_limb2".into() },
        SFault::Special { file: f.clone(), which: "dummy_exit2_limb3".into() },
        // single-field deviations at the documented offsets (such a proof no longer verifies;
        // covers the condition no valid proof can violate: zero block hash with a non-zero output)
        SFault::EditPi { file: f.clone(), edits: vec![(16, 1)] },
        SFault::EditPi { file: f.clone(), edits: vec![(19, 1)] },
        SFault::EditPi { file: f.clone(), edits: vec![(1, 5)] },
        SFault::EditPi { file: f.clone(), edits: vec![(2, 5)] },
        SFault::EditPi { file: f.clone(), edits: vec![(0, 1)] },
        SFault::EditPi { file: f.clone(), edits: vec![(8, 9)] },
        SFault::EditPi { file: f.clone(), edits: vec![(15, 9)] },
        // a field outside the sentinel (fee, nullifier): verification must catch it
        SFault::EditPi { file: f.clone(), edits: vec![(3, 11)] },
        SFault::EditPi { file: f.clone(), edits: vec![(5, 77)] },
        // multi-field deviations
        SFault::EditPi { file: f.clone(), edits: vec![(1, 5), (16, 1)] },
        SFault::EditPi { file: f.clone(), edits: vec![(0, 1), (12, 3), (2, 9)] },
        SFault::BitFlip { file: f.clone(), offset: 100, bit: 3 },
        SFault::BitFlip { file: f.clone(), offset: len / 2, bit: 0 },
        SFault::Truncate { file: f.clone(), len: len / 2 },
        SFault::Truncate { file: f.clone(), len: len - 8 },
        SFault::Extend { file: f.clone(), n: 8, random: false },
        SFault::ZeroFill { file: f.clone(), offset: 64, len: 256 },
        SFault::Misdirect { file: f.clone(), src: "dummy_private_batch_proof.bin".into() },
        SFault::Misdirect { file: f.clone(), src: "common.bin".into() },
        SFault::Missing { file: f.clone() },
    ];
    for _ in 0..extra_positions {
        v.push(SFault::BitFlip { file: f.clone(), offset: positions_seed.below(len), bit: positions_seed.below(8) as u8 });
        v.push(SFault::Truncate { file: f.clone(), len: positions_seed.below(len) });
    }
    v
}

pub fn pb_template_faults(n: usize, len: u64, other_gen: usize, positions_seed: &mut Rng, extra_positions: usize) -> Vec<SFault> {
    let f = "dummy_private_batch_proof.bin".to_string();
    let last_slot = 8 + 5 * (2 * n - 1);
    let mut v = vec![
        SFault::Special { file: f.clone(), which: format!("real_pb_n{n}") },
        SFault::Special { file: f.clone(), which: format!("real_pb_zero_exits_n{n}") },
        SFault::EditPi { file: f.clone(), edits: vec![(3, 1)] },
        SFault::EditPi { file: f.clone(), edits: vec![(6, 1)] },
        SFault::EditPi { file: f.clone(), edits: vec![(8, 5)] },
        SFault::EditPi { file: f.clone(), edits: vec![(9, 7)] },
        SFault::EditPi { file: f.clone(), edits: vec![(last_slot, 5)] },
        SFault::EditPi { file: f.clone(), edits: vec![(last_slot + 4, 7)] },
        SFault::EditPi { file: f.clone(), edits: vec![(1, 1)] },
        SFault::EditPi { file: f.clone(), edits: vec![(8 + 10 * n, 77)] },
        SFault::EditPi { file: f.clone(), edits: vec![(3, 1), (8, 5)] },
        SFault::EditPi { file: f.clone(), edits: vec![(last_slot, 5), (12, 3), (4, 9)] },
        SFault::BitFlip { file: f.clone(), offset: 100, bit: 3 },
        SFault::BitFlip { file: f.clone(), offset: len / 2, bit: 0 },
        SFault::Truncate { file: f.clone(), len: len / 2 },
        SFault::Truncate { file: f.clone(), len: len - 8 },
        SFault::Extend { file: f.clone(), n: 8, random: false },
        SFault::ZeroFill { file: f.clone(), offset: 64, len: 256 },
        // stale template of another shape; wrong-layer file
        SFault::Lost { file: f.clone(), from_gen: other_gen },
        SFault::Misdirect { file: f.clone(), src: "dummy_proof.bin".into() },
        SFault::Missing { file: f.clone() },
    ];
    for _ in 0..extra_positions {
        v.push(SFault::BitFlip { file: f.clone(), offset: positions_seed.below(len), bit: positions_seed.below(8) as u8 });
        v.push(SFault::Truncate { file: f.clone(), len: positions_seed.below(len) });
    }
    v
}

// ------------------------------------------------------------------ in-process histories

/// For a loader that returned Ok: every artifact it reads on its success path must be canonical
/// for the shape in use. Returns the first offending file.
pub fn acceptance_allowed(refs: &Refs, disk: &BTreeMap<String, Vec<u8>>, loader: &str, arg_shape: (usize, Option<usize>)) -> Result<(), String> {
    let (n, m) = if shape_from_config(loader) {
        match disk.get("config.json").and_then(|b| parse_config(b)) {
            Some(s) => s,
            None => return Err("config.json does not parse".into()),
        }
    } else {
        arg_shape
    };
    for name in loader_reads(loader) {
        let bytes = disk.get(*name).cloned().unwrap_or_default();
        let verdict: Option<bool> = match *name {
            "common.bin" | "verifier.bin" => Some(bytes == refs.gens[0].files[*name]),
            "private_batch_common.bin" | "private_batch_verifier.bin" => refs.gen_for_n(n).map(|r| bytes == r.files[*name]),
            "public_batch_common.bin" | "public_batch_verifier.bin" => match refs.gen_for(n, m) {
                Some(r) if r.files.contains_key("public_batch_common.bin") => {
                    let on_disk = reserialise_public(disk.get("public_batch_common.bin").map(|v| v.as_slice()).unwrap_or(&[]), disk.get("public_batch_verifier.bin").map(|v| v.as_slice()).unwrap_or(&[]));
                    let reference = reserialise_public(&r.files["public_batch_common.bin"], &r.files["public_batch_verifier.bin"]);
                    Some(on_disk.is_some() && on_disk == reference)
                }
                _ => None,
            },
            "dummy_proof.bin" => Some(leaf_template_ok(&bytes, refs)),
            "dummy_private_batch_proof.bin" => {
                if refs.pb.contains_key(&n) {
                    Some(pb_template_ok(&bytes, n, refs))
                } else {
                    None
                }
            }
            _ => Some(true),
        };
        if verdict == Some(false) {
            return Err(format!("{name} is not canonical for shape ({n},{m:?})"));
        }
    }
    Ok(())
}

/// One variant of the live directory: a generation plus storage faults.
#[derive(Clone, Debug, Serialize, Deserialize)]
pub struct Variant {
    pub gen: usize,
    pub faults: Vec<SFault>,
}

#[derive(Clone, Debug, Serialize, Deserialize)]
pub struct BootStep {
    pub loader: String,
    pub variant: usize,
}

/// A long-running process that boots consumers repeatedly while the directory is rotated under it.
#[derive(Clone, Debug, Serialize, Deserialize)]
pub struct BootHistory {
    pub variants: Vec<Variant>,
    pub steps: Vec<BootStep>,
    #[serde(default)]
    pub fseed: u64,
}

#[derive(Clone, Debug, Default)]
pub struct HistoryEval {
    pub findings: Vec<(String, String)>,
    pub probes: Counters,
    pub results: Vec<String>,
    pub died: bool,
}

pub fn run_boot_history(sb: &mut Sandbox, refs: &Refs, h: &BootHistory) -> HistoryEval {
    let mut ev = HistoryEval::default();
    let fs = sb.reset();
    let mut frng = Rng::new(h.fseed);
    let mut disks: Vec<BTreeMap<String, Vec<u8>>> = vec![];
    let mut vdirs = vec![];
    for (i, v) in h.variants.iter().enumerate() {
        let d = fs.join(format!("var_{i}"));
        write_set(&d, &refs.gens[v.gen].files);
        for f in &v.faults {
            apply_fault(&d, v.gen, f, refs, &mut frng);
        }
        let mut m = BTreeMap::new();
        for e in std::fs::read_dir(&d).unwrap().flatten() {
            m.insert(e.file_name().to_string_lossy().into_owned(), std::fs::read(e.path()).unwrap_or_default());
        }
        disks.push(m);
        vdirs.push(d.to_string_lossy().into_owned());
    }
    let steps: Vec<serde_json::Value> = h.steps.iter().map(|s| {
        let g = &refs.gens[h.variants[s.variant].gen];
        json!({"loader": s.loader, "variant": s.variant, "n": g.n, "m": g.m.unwrap_or(1)})
    }).collect();
    let run = sb.run_child(ChildSpec { action: "boot_history".into(), args: args_of(&[("dir", json!(fs.join("bins").to_string_lossy())), ("variants", json!(vdirs)), ("steps", json!(steps)), ("include_prover", json!(true))]), as_limit_mb: 24 * 1024, rayon_threads: 2, ..Default::default() });
    let Some(res) = run.result.clone() else {
        ev.died = true;
        ev.probes.inc("history_child_died");
        return ev;
    };
    if res.result != "ok" {
        ev.probes.inc(&format!("history_child_{}", res.result));
        return ev;
    }
    let out = res.extra["steps"].as_array().cloned().unwrap_or_default();
    let mut accepted_before = false;
    for (i, (st, r)) in h.steps.iter().zip(out.iter()).enumerate() {
        let kind = r["result"].as_str().unwrap_or("?").to_string();
        ev.results.push(kind.clone());
        ev.probes.inc(&format!("history_step_{kind}"));
        let g = &refs.gens[h.variants[st.variant].gen];
        if kind == "ok" {
            match acceptance_allowed(refs, &disks[st.variant], &st.loader, (g.n, g.m)) {
                Ok(()) => {}
                Err(why) => {
                    let tpl = why.starts_with("dummy_");
                    ev.findings.push((if tpl { "load:bad-template-accepted".into() } else { "load:non-canonical-artifact-accepted".into() }, format!("step {i} of a single process: {} returned Ok over variant {:?} although {why} (earlier steps: {:?})", st.loader, h.variants[st.variant], &ev.results[..i])));
                }
            }
            if accepted_before {
                ev.probes.inc("acceptance_after_an_earlier_acceptance_in_the_same_process");
            }
            accepted_before = true;
        } else if accepted_before {
            ev.probes.inc("rejection_after_an_earlier_acceptance_in_the_same_process");
        }
    }
    ev
}

pub const DIR_LOADERS: &[&str] = &["load_aggregator", "load_public_dir", "load_private_dir", "load_aggregator_new"];

/// The rotation variants for an ordered pair of generations (a, b): both genuine sets, b with one
/// artifact family (or its config) left over from a, and a with a flipped template.
pub fn rotation_variants(refs: &Refs, a: usize, b: usize, rng: &mut Rng) -> Vec<Variant> {
    let mut variants: Vec<Variant> = vec![];
    variants.push(Variant { gen: a, faults: vec![] });
    variants.push(Variant { gen: b, faults: vec![] });
    let families: [&[&str]; 4] = [&["public_batch_common.bin", "public_batch_verifier.bin"], &["private_batch_common.bin", "private_batch_verifier.bin"], &["dummy_private_batch_proof.bin"], &["dummy_proof.bin"]];
    for fam in families.iter() {
        variants.push(Variant { gen: b, faults: fam.iter().map(|f| SFault::Lost { file: f.to_string(), from_gen: a }).collect() });
    }
    let oa = &refs.gens[a];
    variants.push(Variant { gen: b, faults: vec![SFault::Config { variant: "other_shape".into(), n: oa.n, m: oa.m }] });
    variants.push(Variant { gen: a, faults: vec![SFault::BitFlip { file: "dummy_private_batch_proof.bin".into(), offset: rng.below(4096), bit: rng.below(8) as u8 }] });
    variants
}

/// Enumerated two-step histories: every directory loader pins the genuine set of a, then boots
/// again (same process, same path) from each rotation variant.
pub fn pair_histories(refs: &Refs, a: usize, b: usize, rng: &mut Rng) -> Vec<BootHistory> {
    let variants = rotation_variants(refs, a, b, rng);
    let mut v = vec![];
    for l in DIR_LOADERS {
        for k in 2..variants.len() {
            v.push(BootHistory { variants: variants.clone(), steps: vec![BootStep { loader: l.to_string(), variant: 0 }, BootStep { loader: l.to_string(), variant: k }], fseed: 1 });
        }
    }
    v
}

/// Enumerated two-step histories for a process that remembers what it verified: a genuine template
/// is accepted first, then EVERY entry point of that layer is offered the same template with one bit
/// of the proof body flipped (identical public inputs, so anything keyed on them looks the same).
pub fn template_memo_histories(a: usize) -> Vec<BootHistory> {
    let variants = vec![
        Variant { gen: a, faults: vec![] },
        Variant { gen: a, faults: vec![SFault::BitFlip { file: "dummy_proof.bin".into(), offset: 100, bit: 3 }] },
        Variant { gen: a, faults: vec![SFault::BitFlip { file: "dummy_private_batch_proof.bin".into(), offset: 100, bit: 3 }] },
    ];
    let mut v = vec![];
    for first in ["load_private_dir", "load_private_new"] {
        for l in LEAF_TEMPLATE_ENTRY_POINTS {
            v.push(BootHistory { variants: variants.clone(), steps: vec![BootStep { loader: first.to_string(), variant: 0 }, BootStep { loader: l.to_string(), variant: 1 }], fseed: 1 });
        }
    }
    for first in ["load_public_dir", "load_aggregator"] {
        for l in PB_TEMPLATE_ENTRY_POINTS {
            v.push(BootHistory { variants: variants.clone(), steps: vec![BootStep { loader: first.to_string(), variant: 0 }, BootStep { loader: l.to_string(), variant: 2 }], fseed: 1 });
        }
    }
    v
}

/// Seeded rotation history: a genuine generation gets pinned first (most of the time), then the
/// directory is rotated through other shapes and mixed generations.
pub fn random_boot_history(refs: &Refs, rng: &mut Rng) -> BootHistory {
    let dir_loaders = DIR_LOADERS;
    let ng = 3usize;
    let a = rng.usize(ng);
    let b = (a + 1 + rng.usize(ng - 1)) % ng;
    let mut variants: Vec<Variant> = vec![];
    variants.push(Variant { gen: a, faults: vec![] });
    variants.push(Variant { gen: b, faults: vec![] });
    // mixed generations: generation b with one artifact family kept from a (a crashed or partial rotation)
    let families: [&[&str]; 4] = [&["public_batch_common.bin", "public_batch_verifier.bin"], &["private_batch_common.bin", "private_batch_verifier.bin"], &["dummy_private_batch_proof.bin"], &["dummy_proof.bin"]];
    for fam in families.iter() {
        variants.push(Variant { gen: b, faults: fam.iter().map(|f| SFault::Lost { file: f.to_string(), from_gen: a }).collect() });
    }
    let oa = &refs.gens[a];
    variants.push(Variant { gen: b, faults: vec![SFault::Config { variant: "other_shape".into(), n: oa.n, m: oa.m }] });
    variants.push(Variant { gen: a, faults: vec![SFault::BitFlip { file: "dummy_private_batch_proof.bin".into(), offset: rng.below(4096), bit: rng.below(8) as u8 }] });
    let n = rng.range(3, 5) as usize;
    let mut steps = vec![];
    for i in 0..n {
        let variant = if i == 0 && rng.chance(3, 4) { 0 } else { rng.usize(variants.len()) };
        steps.push(BootStep { loader: rng.pick(&dir_loaders).to_string(), variant });
    }
    BootHistory { variants, steps, fseed: rng.next_u64() }
}

#[derive(Clone, Debug, Serialize, Deserialize)]
pub struct TemplateHistory {
    /// (circuit index, template index): circuits 0 = canonical leaf, 1/2 = leaf-shaped circuits with
    /// other verifier keys; templates 0 = genuine, 1/2 = dummy-sentinel proofs under circuit 1/2,
    /// 3 = template 1 with a non-sentinel public input changed
    pub steps: Vec<(usize, usize)>,
}

pub fn random_template_history(rng: &mut Rng) -> TemplateHistory {
    let n = rng.range(3, 6) as usize;
    let mut steps = vec![];
    for _ in 0..n {
        let c = rng.usize(3);
        // mostly the matching template or the other alternative's
        let t = match rng.below(5) {
            0 | 1 => c,
            2 => (c + 1) % 3,
            3 => (c + 2) % 3,
            _ => 3,
        };
        steps.push((c, t));
    }
    TemplateHistory { steps }
}

pub fn run_template_history(sb: &mut Sandbox, refs: &Refs, h: &TemplateHistory) -> HistoryEval {
    let mut ev = HistoryEval::default();
    let fs = sb.reset();
    let dir = fs.join("bins");
    write_set(&dir, &refs.gens[0].files);
    let steps: Vec<serde_json::Value> = h.steps.iter().map(|(c, t)| json!({"circuit": c, "template": t})).collect();
    let run = sb.run_child(ChildSpec { action: "template_history".into(), args: args_of(&[("dir", json!(dir.to_string_lossy())), ("steps", json!(steps))]), as_limit_mb: 24 * 1024, rayon_threads: 2, ..Default::default() });
    let Some(res) = run.result.clone() else {
        ev.died = true;
        return ev;
    };
    if res.result != "ok" {
        ev.probes.inc(&format!("history_child_{}", res.result));
        ev.findings.push(("harness:template-history-failed".into(), format!("{} {}", res.result, res.error)));
        return ev;
    }
    for (i, r) in res.extra["steps"].as_array().cloned().unwrap_or_default().iter().enumerate() {
        let kind = r["result"].as_str().unwrap_or("?").to_string();
        let truth = r["template_verifies_under_this_verifier"].as_bool().unwrap_or(false);
        ev.results.push(format!("c{}t{}:{}", r["circuit"], r["template"], kind));
        ev.probes.inc(&format!("template_history_step_{kind}"));
        if kind == "ok" && !truth {
            ev.findings.push(("load:bad-template-accepted".into(), format!("step {i} of a single process: PrivateBatchProver::new accepted template {} under pinned leaf verifier {}, under which it does not verify (earlier steps: {:?})", r["template"], r["circuit"], &ev.results[..i])));
        }
        if kind != "ok" && truth && h.steps[i].1 != 3 {
            ev.probes.inc("template_history_valid_pair_rejected");
        }
    }
    ev
}

// ------------------------------------------------------------------ free-public-input sweeps (C16)

/// Deviation specs for the stand-in circuits: lists of (public-input index, value).
pub fn free_pi_specs(layer: &str, n: usize, rng: &mut Rng, extra: usize) -> Vec<Vec<(usize, u64)>> {
    let len = if layer == "leaf" { 21 } else { 21 * n + 8 };
    let big = 0xFFFF_FFFF_0000_0000u64; // p - 1
    let mut v: Vec<Vec<(usize, u64)>> = vec![vec![]];
    // every single position, small and large
    for i in 0..len {
        v.push(vec![(i, 1)]);
        v.push(vec![(i, if layer == "leaf" && (i <= 3 || i == 20) { 1 << 31 } else { big })]);
    }
    if layer == "leaf" {
        // a non-sentinel field together with a sentinel one; two sentinel fields
        v.push(vec![(3, 10), (15, 1)]);
        v.push(vec![(5, 77), (0, 1)]);
        v.push(vec![(1, 5), (16, 1)]);
        v.push(vec![(12, 3), (19, 9)]);
    } else {
        // the self-declared slot count lowered or raised, alone and together with every slot position
        for h in [0u64, 1, (2 * n) as u64 - 1, (2 * n) as u64 + 1, big] {
            v.push(vec![(0, h)]);
            for i in 8..8 + 10 * n {
                v.push(vec![(0, h), (i, 7)]);
            }
            v.push(vec![(0, h), (3, 1)]);
        }
        v.push(vec![(1, 1), (8, 5)]);
        v.push(vec![(2, 10), (8 + 10 * n - 1, 1)]);
    }
    for _ in 0..extra {
        let k = 1 + rng.usize(3);
        v.push((0..k).map(|_| (rng.usize(len), *rng.pick(&[1u64, 7, 1 << 31, big]))).collect());
    }
    v
}

/// The sentinel positions of a template's public inputs (what must be zero).
pub fn sentinel_positions(layer: &str, n: usize) -> Vec<usize> {
    if layer == "leaf" {
        // asset(0) out1(1) out2(2) exit1(8..12) exit2(12..16) block_hash(16..20)
        let mut p = vec![0, 1, 2];
        p.extend(8..20);
        p
    } else {
        // block_hash(3..7) and the 2n exit slots of 5 felts each (8..8+10n)
        let mut p: Vec<usize> = (3..7).collect();
        p.extend(8..8 + 10 * n);
        p
    }
}

/// Run one chunk of specs in a child and judge it: acceptance of a template whose public inputs are
/// non-zero in a sentinel position is a finding; the unmodified vector must be accepted (precondition).
pub fn run_free_pi_chunk(sb: &mut Sandbox, layer: &str, n: usize, m: usize, specs: &[Vec<(usize, u64)>]) -> HistoryEval {
    let mut ev = HistoryEval::default();
    let fs = sb.reset();
    let js: Vec<serde_json::Value> = specs.iter().map(|sp| json!(sp.iter().map(|(i, x)| json!([i, x])).collect::<Vec<_>>())).collect();
    let run = sb.run_child(ChildSpec { action: "free_pi_sweep".into(), args: args_of(&[("dir", json!(fs.to_string_lossy())), ("layer", json!(layer)), ("n", json!(n)), ("m", json!(m)), ("specs", json!(js))]), as_limit_mb: 24 * 1024, rayon_threads: 2, ..Default::default() });
    let Some(res) = run.result.clone() else {
        ev.died = true;
        return ev;
    };
    if res.result != "ok" {
        ev.findings.push(("harness:free-pi-sweep-failed".into(), format!("{} {}", res.result, res.error)));
        return ev;
    }
    let sent = sentinel_positions(layer, n);
    for (sp, r) in specs.iter().zip(res.extra["results"].as_array().cloned().unwrap_or_default()) {
        let kind = r["result"].as_str().unwrap_or("?").to_string();
        let pis: Vec<u64> = r["public_inputs"].as_array().map(|a| a.iter().map(|x| x.as_u64().unwrap_or(0)).collect()).unwrap_or_default();
        let verifies = r["verifies"].as_bool().unwrap_or(false);
        ev.results.push(format!("{sp:?}:{kind}"));
        ev.probes.inc(&format!("free_pi_{layer}_{kind}"));
        if !verifies {
            ev.findings.push(("harness:free-pi-template-does-not-verify".into(), format!("{sp:?}")));
        }
        if sp.is_empty() && kind != "ok" {
            ev.findings.push(("harness:free-pi-genuine-rejected".into(), format!("the {layer}-layer object constructor rejected the all-sentinel template of the stand-in circuit ({kind})")));
        }
        let bad: Vec<usize> = sent.iter().copied().filter(|i| pis.get(*i).copied().unwrap_or(0) != 0).collect();
        if kind == "ok" && !bad.is_empty() {
            ev.findings.push(("load:bad-template-accepted".into(), format!("the {layer}-layer object constructor (n={n}, m={m}) accepted a VERIFYING template whose public inputs are non-zero at sentinel position(s) {bad:?} (deviation {sp:?})")));
        }
    }
    ev
}
