//! Parent side helpers: sandbox directories on tmpfs, child processes,
//! directory-tree classification.
use crate::child::{ChildResult, ChildSpec};
use qpz_core::rng::hash_bytes;
use std::collections::BTreeMap;
use std::path::{Path, PathBuf};
use std::process::Command;

pub fn session_root() -> PathBuf {
    PathBuf::from(format!("/dev/shm/qpz-verif-{}", std::process::id()))
}

pub struct Sandbox {
    pub root: PathBuf,
    seq: u64,
}

impl Sandbox {
    pub fn new(tag: &str) -> Sandbox {
        let root = session_root().join(tag);
        let _ = std::fs::remove_dir_all(&root);
        std::fs::create_dir_all(&root).expect("cannot create sandbox on /dev/shm");
        Sandbox { root, seq: 0 }
    }
    /// Fresh empty sandbox tree (`<root>/fs`), returns its path.
    pub fn reset(&mut self) -> PathBuf {
        let fs = self.root.join("fs");
        let _ = std::fs::remove_dir_all(&fs);
        std::fs::create_dir_all(&fs).unwrap();
        fs
    }
    pub fn fs(&self) -> PathBuf {
        self.root.join("fs")
    }
    /// Run one child; `None` result = the child died without reporting.
    pub fn run_child(&mut self, mut spec: ChildSpec) -> ChildRun {
        self.seq += 1;
        let spec_path = self.root.join(format!("spec-{}.json", self.seq));
        let out_path = self.root.join(format!("out-{}.json", self.seq));
        spec.out = out_path.to_string_lossy().into_owned();
        spec.root = self.fs().to_string_lossy().into_owned();
        spec.quiet = true;
        std::fs::write(&spec_path, serde_json::to_vec(&spec).unwrap()).unwrap();
        // the running image itself (stays valid if the file on disk is replaced by a rebuild meanwhile)
        let exe = std::path::PathBuf::from("/proc/self/exe");
        // children that prove run side by side with other children: bound their rayon pools
        let status = Command::new(exe).arg("child").arg(&spec_path).env("RAYON_NUM_THREADS", if spec.rayon_threads > 0 { spec.rayon_threads.to_string() } else { "4".into() }).status().expect("cannot spawn child");
        let result: Option<ChildResult> = std::fs::read(&out_path).ok().and_then(|b| serde_json::from_slice(&b).ok());
        let _ = std::fs::remove_file(&spec_path);
        let _ = std::fs::remove_file(&out_path);
        ChildRun { result, exit_code: status.code(), signal: std::os::unix::process::ExitStatusExt::signal(&status) }
    }
}

impl Drop for Sandbox {
    fn drop(&mut self) {
        let _ = std::fs::remove_dir_all(&self.root);
    }
}

pub struct ChildRun {
    pub result: Option<ChildResult>,
    pub exit_code: Option<i32>,
    pub signal: Option<i32>,
}

impl ChildRun {
    /// ok | err | panic | crash | died
    pub fn kind(&self) -> &str {
        match &self.result {
            Some(r) => r.result.as_str(),
            None => "died",
        }
    }
}

/// name -> content hash of the regular files directly in `dir`; `None` if `dir`
/// is not a directory. Sub-directories appear as `name/` with hash 0.
pub fn read_set(dir: &Path) -> Option<BTreeMap<String, u64>> {
    let md = std::fs::symlink_metadata(dir).ok()?;
    if !md.is_dir() {
        return None;
    }
    let mut m = BTreeMap::new();
    for e in std::fs::read_dir(dir).ok()? {
        let e = e.ok()?;
        let name = e.file_name().to_string_lossy().into_owned();
        let ft = e.file_type().ok()?;
        if ft.is_dir() {
            m.insert(format!("{name}/"), 0);
        } else {
            let bytes = std::fs::read(e.path()).unwrap_or_default();
            m.insert(name, hash_bytes(&bytes));
        }
    }
    Some(m)
}

pub fn write_set(dir: &Path, files: &BTreeMap<String, Vec<u8>>) {
    std::fs::create_dir_all(dir).unwrap();
    for (n, b) in files {
        std::fs::write(dir.join(n), b).unwrap();
    }
}

pub fn hashes(files: &BTreeMap<String, Vec<u8>>) -> BTreeMap<String, u64> {
    files.iter().map(|(n, b)| (n.clone(), hash_bytes(b))).collect()
}

pub fn load_files(dir: &Path) -> BTreeMap<String, Vec<u8>> {
    let mut m = BTreeMap::new();
    for e in std::fs::read_dir(dir).unwrap() {
        let e = e.unwrap();
        if e.file_type().unwrap().is_file() {
            m.insert(e.file_name().to_string_lossy().into_owned(), std::fs::read(e.path()).unwrap());
        }
    }
    m
}

/// Names of the entries of `dir` (sorted).
pub fn list(dir: &Path) -> Vec<String> {
    let mut v: Vec<String> = std::fs::read_dir(dir).map(|it| it.filter_map(|e| e.ok()).map(|e| e.file_name().to_string_lossy().into_owned()).collect()).unwrap_or_default();
    v.sort();
    v
}
