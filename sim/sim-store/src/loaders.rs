//! Loader / constructor actions run in the child (C16, C17): every entry point
//! of the repository that accepts artifact files, bytes or template objects.
use crate::child::ChildSpec;
use anyhow::{anyhow, Context};
use plonky2::plonk::proof::ProofWithPublicInputs;
use serde_json::{json, Value};
use std::path::{Path, PathBuf};
use wormhole_aggregator::aggregator::PublicBatchAggregator;
use wormhole_aggregator::common::utils::canonical_leaf_verifier_data;
use wormhole_aggregator::private_batch::prover::PrivateBatchProver;
use wormhole_aggregator::public_batch::prover::{PublicBatchInputs, PublicBatchProver};
use wormhole_aggregator::CircuitBinsConfig;
use wormhole_inputs::BytesDigest;
use zk_circuits_common::circuit::{wormhole_private_batch_circuit_config, wormhole_public_batch_circuit_config, C, D, F};

type Proof = ProofWithPublicInputs<F, C, D>;

fn dir_of(spec: &ChildSpec) -> PathBuf {
    PathBuf::from(spec.args.get("dir").and_then(|v| v.as_str()).expect("child: missing dir"))
}
fn n_of(spec: &ChildSpec) -> usize {
    spec.args.get("n").and_then(|v| v.as_u64()).expect("child: missing n") as usize
}
fn m_of(spec: &ChildSpec) -> usize {
    spec.args.get("m").and_then(|v| v.as_u64()).expect("child: missing m") as usize
}
/// Raw read for the byte/object constructors (the constructor under test
/// receives bytes, so how they were fetched is not part of it).
fn raw(p: &Path) -> anyhow::Result<Vec<u8>> {
    std::fs::read(p).with_context(|| format!("harness read of {}", p.display()))
}

pub fn run(action: &str, spec: &ChildSpec) -> anyhow::Result<Value> {
    match action {
        "seam_selftest" => {
            let dir = dir_of(spec);
            std::fs::create_dir_all(dir.join("a"))?;
            std::fs::write(dir.join("a/f"), b"hello")?;
            let b = std::fs::read(dir.join("a/f"))?;
            anyhow::ensure!(b == b"hello");
            std::fs::rename(dir.join("a"), dir.join("b"))?;
            anyhow::ensure!(dir.join("b").is_dir());
            anyhow::ensure!(!dir.join("a").exists());
            let md = std::fs::metadata(dir.join("b/f"))?;
            anyhow::ensure!(md.len() == 5);
            std::fs::remove_file(dir.join("b/f"))?;
            std::fs::write(dir.join("b/g"), b"x")?;
            std::fs::remove_dir_all(dir.join("b"))?;
            Ok(Value::Null)
        }
        // ------------------------------------------------------------ leaf
        "load_leaf_verifier" => {
            let d = dir_of(spec);
            let v = wormhole_verifier::WormholeVerifier::new_from_files(&d.join("verifier.bin"), &d.join("common.bin"))?;
            Ok(json!({"num_public_inputs": v.circuit_data.common.num_public_inputs}))
        }
        "load_leaf_verifier_bytes" => {
            let d = dir_of(spec);
            let v = wormhole_verifier::WormholeVerifier::new_from_bytes(&raw(&d.join("verifier.bin"))?, &raw(&d.join("common.bin"))?)?;
            Ok(json!({"num_public_inputs": v.circuit_data.common.num_public_inputs}))
        }
        "load_config" => {
            let c = CircuitBinsConfig::load(dir_of(spec))?;
            Ok(json!({"n": c.num_leaf_proofs, "m": c.num_private_batch_proofs}))
        }
        // --------------------------------------------------- private batch
        "load_private_dir" => {
            let p = PrivateBatchProver::new_from_binaries_dir(&dir_of(spec))?;
            Ok(json!({"n": p.num_leaf_proofs()}))
        }
        "load_private_files" => {
            let d = dir_of(spec);
            let p = PrivateBatchProver::new_from_files(&d.join("common.bin"), &d.join("verifier.bin"), &d.join("dummy_proof.bin"), n_of(spec))?;
            Ok(json!({"n": p.num_leaf_proofs()}))
        }
        "load_private_bytes" => {
            let d = dir_of(spec);
            let p = PrivateBatchProver::new_from_bytes(&raw(&d.join("common.bin"))?, &raw(&d.join("verifier.bin"))?, &raw(&d.join("dummy_proof.bin"))?, n_of(spec))?;
            Ok(json!({"n": p.num_leaf_proofs()}))
        }
        "load_private_new" => {
            // object constructor: canonical leaf circuit from source, template object from the file
            let d = dir_of(spec);
            let leaf = canonical_leaf_verifier_data();
            let template = Proof::from_bytes(raw(&d.join("dummy_proof.bin"))?, &leaf.common).map_err(|e| anyhow!("template does not deserialise: {e}"))?;
            let p = PrivateBatchProver::new(wormhole_private_batch_circuit_config(), leaf.common.clone(), &leaf.verifier_only, n_of(spec), template)?;
            Ok(json!({"n": p.num_leaf_proofs()}))
        }
        "private_commit_prove" => {
            // constructor + commit + prove with poisoned prover artifacts lying around
            let d = dir_of(spec);
            let p = PrivateBatchProver::new_from_binaries_dir(&d)?;
            let leaf_bytes = raw(Path::new(spec.args.get("leaf_proof").and_then(|v| v.as_str()).expect("leaf_proof")))?;
            let leaf = Proof::from_bytes(leaf_bytes, &canonical_leaf_verifier_data().common).map_err(|e| anyhow!("{e}"))?;
            let proof = p.commit(vec![leaf])?.prove()?;
            Ok(json!({"public_inputs": proof.public_inputs.len()}))
        }
        // ---------------------------------------------------- public batch
        "load_public_dir" => {
            let p = PublicBatchProver::new_from_binaries_dir(&dir_of(spec))?;
            Ok(json!({"m": p.num_private_batch_proofs()}))
        }
        "load_public_files" => {
            let d = dir_of(spec);
            let p = PublicBatchProver::new_from_files(&d.join("private_batch_common.bin"), &d.join("private_batch_verifier.bin"), &d.join("dummy_private_batch_proof.bin"), (n_of(spec), m_of(spec)))?;
            Ok(json!({"m": p.num_private_batch_proofs()}))
        }
        "load_public_bytes" => {
            let d = dir_of(spec);
            let p = PublicBatchProver::new_from_bytes(&raw(&d.join("private_batch_common.bin"))?, &raw(&d.join("private_batch_verifier.bin"))?, &raw(&d.join("dummy_private_batch_proof.bin"))?, (n_of(spec), m_of(spec)))?;
            Ok(json!({"m": p.num_private_batch_proofs()}))
        }
        "load_public_new" => {
            // object constructor: canonical private-batch circuit from source, template object from the file
            let d = dir_of(spec);
            let leaf = canonical_leaf_verifier_data();
            let pb = wormhole_aggregator::common::utils::canonical_private_batch_verifier_data(&leaf, n_of(spec))?;
            let template = Proof::from_bytes(raw(&d.join("dummy_private_batch_proof.bin"))?, &pb.common).map_err(|e| anyhow!("template does not deserialise: {e}"))?;
            let p = PublicBatchProver::new(wormhole_public_batch_circuit_config(), pb.common.clone(), &pb.verifier_only, m_of(spec), n_of(spec), template)?;
            Ok(json!({"m": p.num_private_batch_proofs()}))
        }
        "load_aggregator" | "load_aggregator_new" => {
            let addr = BytesDigest::try_from([7u8; 32]).unwrap();
            let a = if action == "load_aggregator" {
                PublicBatchAggregator::with_limits(dir_of(spec), addr, wormhole_aggregator::pool::PoolLimits::default())?
            } else {
                PublicBatchAggregator::new(dir_of(spec), addr)?
            };
            Ok(json!({"m": a.batch_size(), "private_batch_pi_len": a.private_batch_common().num_public_inputs, "public_batch_pi_len": a.public_batch_common().num_public_inputs}))
        }
        "public_commit_prove" => {
            let d = dir_of(spec);
            let p = PublicBatchProver::new_from_binaries_dir(&d)?;
            let leaf = canonical_leaf_verifier_data();
            let cfg = CircuitBinsConfig::load(&d)?;
            let pb = wormhole_aggregator::common::utils::canonical_private_batch_verifier_data(&leaf, cfg.num_leaf_proofs)?;
            let inner = Proof::from_bytes(raw(Path::new(spec.args.get("inner_proof").and_then(|v| v.as_str()).expect("inner_proof")))?, &pb.common).map_err(|e| anyhow!("{e}"))?;
            let proof = p.commit(PublicBatchInputs { proofs: vec![inner], aggregator_address: BytesDigest::try_from([7u8; 32]).unwrap() })?.prove()?;
            Ok(json!({"public_inputs": proof.public_inputs.len()}))
        }
        // ------------------------------------------------ histories in ONE process
        // A long-running service rotating artifacts: before each step the live directory is made
        // identical to one of the prepared variants (same path, new content), then a loader boots
        // from it. Acceptance must not depend on what the process saw before.
        "boot_history" => {
            let bins = dir_of(spec);
            let variants: Vec<PathBuf> = spec.args["variants"].as_array().unwrap().iter().map(|v| PathBuf::from(v.as_str().unwrap())).collect();
            let steps = spec.args["steps"].as_array().unwrap();
            let mut results = vec![];
            for st in steps {
                let loader = st["loader"].as_str().unwrap().to_string();
                let var = st["variant"].as_u64().unwrap() as usize;
                // rotate in place
                std::fs::create_dir_all(&bins)?;
                for e in std::fs::read_dir(&bins)? {
                    let e = e?;
                    std::fs::remove_file(e.path())?;
                }
                for e in std::fs::read_dir(&variants[var])? {
                    let e = e?;
                    std::fs::copy(e.path(), bins.join(e.file_name()))?;
                }
                let mut sub = spec.clone();
                sub.action = loader.clone();
                sub.args.insert("n".into(), st["n"].clone());
                sub.args.insert("m".into(), st["m"].clone());
                // through the child's dispatcher, so that the build stages can be steps too
                let r = std::panic::catch_unwind(std::panic::AssertUnwindSafe(|| crate::child::run_action(&sub)));
                results.push(match r {
                    Ok(Ok(_)) => json!({"result": "ok"}),
                    Ok(Err(e)) => json!({"result": "err", "error": format!("{e:#}")}),
                    Err(_) => json!({"result": "panic"}),
                });
            }
            Ok(json!({"steps": results}))
        }
        // Object constructors given different pinned verifiers in one process: leaf-shaped circuits
        // with different verifier keys and dummy-sentinel templates proved under each. Each call is
        // judged on its own: the template must verify under THE verifier passed to that call.
        "template_history" => {
            use plonky2::field::types::Field;
            use plonky2::iop::witness::{PartialWitness, WitnessWrite};
            use plonky2::plonk::circuit_builder::CircuitBuilder;
            use plonky2::plonk::circuit_data::{CircuitConfig, CircuitData, VerifierCircuitData};
            let build_alt = |tag: u64| -> (CircuitData<F, C, D>, Vec<plonky2::iop::target::Target>) {
                let mut b = CircuitBuilder::<F, D>::new(CircuitConfig::standard_recursion_config());
                let pis = b.add_virtual_targets(21);
                b.range_check(pis[1], 32);
                b.range_check(pis[2], 32);
                b.range_check(pis[3], 32);
                // a constant that differs per circuit: same shape, different verifier key
                let c = b.constant(F::from_canonical_u64(tag));
                let prod = b.mul(c, pis[3]);
                b.range_check(prod, 63);
                b.register_public_inputs(&pis);
                (b.build::<C>(), pis)
            };
            let prove_dummy = |d: &CircuitData<F, C, D>, t: &[plonky2::iop::target::Target]| -> Proof {
                let mut pw = PartialWitness::new();
                for x in t {
                    pw.set_target(*x, F::ZERO).unwrap();
                }
                d.prove(pw).expect("alt dummy proves")
            };
            let (ca, ta) = build_alt(3);
            let (cb, tb) = build_alt(5);
            let canon = canonical_leaf_verifier_data();
            let circuits: Vec<VerifierCircuitData<F, C, D>> = vec![canon.clone(), ca.verifier_data(), cb.verifier_data()];
            let d = dir_of(spec);
            let t0 = Proof::from_bytes(raw(&d.join("dummy_proof.bin"))?, &canon.common).map_err(|e| anyhow!("{e}"))?;
            let mut flipped = prove_dummy(&ca, &ta);
            flipped.public_inputs[3] = F::from_canonical_u64(9); // not a sentinel field; breaks verification only
            let templates: Vec<Proof> = vec![t0, prove_dummy(&ca, &ta), prove_dummy(&cb, &tb), flipped];
            let mut results = vec![];
            for st in spec.args["steps"].as_array().unwrap() {
                let (ci, ti) = (st["circuit"].as_u64().unwrap() as usize, st["template"].as_u64().unwrap() as usize);
                let vd = &circuits[ci];
                let truth = std::panic::catch_unwind(std::panic::AssertUnwindSafe(|| vd.verify(templates[ti].clone()).is_ok())).unwrap_or(false);
                let r = std::panic::catch_unwind(std::panic::AssertUnwindSafe(|| PrivateBatchProver::new(wormhole_private_batch_circuit_config(), vd.common.clone(), &vd.verifier_only, 1, templates[ti].clone()).map(|_| ())));
                let got = match r {
                    Ok(Ok(())) => "ok",
                    Ok(Err(_)) => "err",
                    Err(_) => "panic",
                };
                results.push(json!({"circuit": ci, "template": ti, "result": got, "template_verifies_under_this_verifier": truth}));
            }
            Ok(json!({"steps": results}))
        }
        // Object constructors given a stand-in child circuit whose public inputs are FREE: any public-input
        // vector then has a verifying proof, so every single- and multi-field deviation from the sentinel
        // can be offered as a template that VERIFIES under the verifier passed to that very call. (Under
        // the canonical circuits most deviations have no verifying proof and are caught by verification
        // whatever the sentinel test does.)
        "free_pi_sweep" => {
            use plonky2::field::types::Field;
            use plonky2::iop::witness::{PartialWitness, WitnessWrite};
            use plonky2::plonk::circuit_builder::CircuitBuilder;
            use plonky2::plonk::circuit_data::CircuitConfig;
            let layer = spec.args["layer"].as_str().unwrap_or("leaf").to_string();
            let (n, m) = (n_of(spec), m_of(spec));
            let len = if layer == "leaf" { 21 } else { 21 * n + 8 };
            let mut b = CircuitBuilder::<F, D>::new(CircuitConfig::standard_recursion_config());
            let pis = b.add_virtual_targets(len);
            // a little real structure so the stand-in is not a degenerate circuit
            let sq = b.mul(pis[len - 1], pis[len - 1]);
            let _ = b.add(sq, pis[0]);
            b.register_public_inputs(&pis);
            let data = b.build::<C>();
            let vd = data.verifier_data();
            let mut results = vec![];
            for sp in spec.args["specs"].as_array().cloned().unwrap_or_default() {
                let mut v = vec![0u64; len];
                if layer != "leaf" {
                    v[0] = (2 * n) as u64; // the header the layout prescribes
                }
                for e in sp.as_array().cloned().unwrap_or_default() {
                    let (i, x) = (e[0].as_u64().unwrap() as usize, e[1].as_u64().unwrap());
                    if i < len {
                        v[i] = x;
                    }
                }
                let mut pw = PartialWitness::new();
                for (t, x) in pis.iter().zip(&v) {
                    pw.set_target(*t, F::from_canonical_u64(*x)).unwrap();
                }
                let template = data.prove(pw).map_err(|e| anyhow!("stand-in proving failed: {e}"))?;
                let verifies = vd.verify(template.clone()).is_ok();
                let r = std::panic::catch_unwind(std::panic::AssertUnwindSafe(|| {
                    if layer == "leaf" {
                        PrivateBatchProver::new(wormhole_private_batch_circuit_config(), vd.common.clone(), &vd.verifier_only, n, template.clone()).map(|_| ())
                    } else {
                        PublicBatchProver::new(wormhole_public_batch_circuit_config(), vd.common.clone(), &vd.verifier_only, m, n, template.clone()).map(|_| ())
                    }
                }));
                results.push(json!({"public_inputs": v, "verifies": verifies, "result": match r { Ok(Ok(())) => "ok", Ok(Err(_)) => "err", Err(_) => "panic" }}));
            }
            Ok(json!({"results": results}))
        }
        other => anyhow::bail!("unknown child action {other}"),
    }
}
