//! Loader / constructor actions run in the child (C16, C17).
use crate::child::ChildSpec;
use serde_json::Value;

pub fn run(action: &str, spec: &ChildSpec) -> anyhow::Result<Value> {
    match action {
        "seam_selftest" => {
            let dir = std::path::PathBuf::from(spec.args.get("dir").and_then(|v| v.as_str()).unwrap());
            std::fs::create_dir_all(dir.join("a"))?;
            std::fs::write(dir.join("a/f"), b"hello")?;
            let b = std::fs::read(dir.join("a/f"))?;
            anyhow::ensure!(b == b"hello");
            std::fs::rename(dir.join("a"), dir.join("b"))?;
            anyhow::ensure!(dir.join("b").is_dir());
            anyhow::ensure!(!dir.join("a").exists());
            let md = std::fs::metadata(dir.join("b/f"))?;
            anyhow::ensure!(md.len() == 5);
            std::fs::remove_file(dir.join("b/f"))?;
            std::fs::write(dir.join("b/g"), b"x")?;
            std::fs::remove_dir_all(dir.join("b"))?;
            Ok(Value::Null)
        }
        other => anyhow::bail!("unknown child action {other}"),
    }
}
