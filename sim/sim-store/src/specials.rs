//! Valid-but-wrong proofs for template faults, produced once per check with the
//! real provers from the working tree.
use crate::c17::Refs;
use qpz_core::rng::Rng;
use qpz_world::{dummy_inputs, max_total_output, prove_leaf, random_deposit, random_digest, Block};
use wormhole_aggregator::private_batch::prover::PrivateBatchProver;
use wormhole_inputs::BytesDigest;

/// Verifier artifacts of the SAME circuits built under ANOTHER circuit configuration (one more FRI query
/// round): same shape, same gates, different common data and verifier key. "Other configs" in the property.
pub fn build_other_config_artifacts(refs: &mut Refs) {
    use plonky2::util::serialization::DefaultGateSerializer;
    use wormhole_aggregator::private_batch::circuit::circuit_logic::PrivateBatchCircuit;
    use wormhole_aggregator::public_batch::circuit::PublicBatchCircuit;
    use zk_circuits_common::circuit::{wormhole_leaf_circuit_config, wormhole_private_batch_circuit_config, wormhole_public_batch_circuit_config};
    let ser = |vd: &plonky2::plonk::circuit_data::VerifierCircuitData<zk_circuits_common::circuit::F, zk_circuits_common::circuit::C, { zk_circuits_common::circuit::D }>| -> (Vec<u8>, Vec<u8>) {
        (vd.common.to_bytes(&DefaultGateSerializer).expect("serialise common"), vd.verifier_only.to_bytes().expect("serialise verifier-only"))
    };
    let mut cfg = wormhole_leaf_circuit_config();
    cfg.fri_config.num_query_rounds += 1;
    let leaf_alt = wormhole_circuit::circuit::circuit_logic::WormholeCircuit::new(cfg).unwrap_or_else(|e| qpz_core::harness_error(&format!("alt-config leaf circuit: {e:#}"))).build_verifier();
    let (c, v) = ser(&leaf_alt);
    refs.specials.insert("othercfg_leaf_common".into(), c);
    refs.specials.insert("othercfg_leaf_verifier".into(), v);
    let shapes: Vec<(usize, Option<usize>)> = refs.gens.iter().map(|g| (g.n, g.m)).collect();
    for (n, m) in shapes {
        let mut cfg = wormhole_private_batch_circuit_config();
        cfg.fri_config.num_query_rounds += 1;
        let key = format!("othercfg_private_n{n}_common");
        if !refs.specials.contains_key(&key) {
            let pb_alt = PrivateBatchCircuit::new(cfg, &refs.leaf.common, &refs.leaf.verifier_only, n).unwrap_or_else(|e| qpz_core::harness_error(&format!("alt-config private-batch circuit: {e:#}"))).build_verifier();
            let (c, v) = ser(&pb_alt);
            refs.specials.insert(key, c);
            refs.specials.insert(format!("othercfg_private_n{n}_verifier"), v);
        }
        if let Some(m) = m {
            let mut cfg = wormhole_public_batch_circuit_config();
            cfg.fri_config.num_query_rounds += 1;
            let pb = refs.pb[&n].clone();
            let pub_alt = PublicBatchCircuit::new(cfg, pb.common.clone(), &pb.verifier_only, m, n).unwrap_or_else(|e| qpz_core::harness_error(&format!("alt-config public-batch circuit: {e:#}"))).build_verifier();
            let (c, v) = ser(&pub_alt);
            refs.specials.insert(format!("othercfg_public_n{n}_m{m}_common"), c);
            refs.specials.insert(format!("othercfg_public_n{n}_m{m}_verifier"), v);
        }
    }
}

pub fn build_specials(refs: &mut Refs, seed: u64, with_pb: bool) {
    build_other_config_artifacts(refs);
    let mut rng = Rng::new(qpz_core::rng::mix(seed, 0x5bec1a15));
    let deposits = (0..3).map(|_| random_deposit(&mut rng, 0)).collect();
    let block = Block::new(deposits, 7, &mut rng);
    let fee = 10;
    let total = max_total_output(block.deposits[0].input_amount, fee);
    let real = prove_leaf(&block.spend(0, total / 2, total / 4, fee, random_digest(&mut rng), random_digest(&mut rng))).unwrap_or_else(|e| qpz_core::harness_error(&format!("cannot prove a real leaf: {e:#}")));
    let real_zero = prove_leaf(&block.spend(1, 0, 0, fee, BytesDigest::default(), BytesDigest::default())).unwrap_or_else(|e| qpz_core::harness_error(&format!("cannot prove a zero-output real leaf: {e:#}")));
    refs.specials.insert("real_leaf".into(), real.to_bytes());
    refs.specials.insert("real_leaf_zero_out".into(), real_zero.to_bytes());
    let mut d = dummy_inputs().unwrap();
    d.public.asset_id = 1;
    refs.specials.insert("dummy_asset1".into(), prove_leaf(&d).unwrap_or_else(|e| qpz_core::harness_error(&format!("cannot prove a foreign dummy (asset): {e:#}"))).to_bytes());
    let mut d = dummy_inputs().unwrap();
    d.public.exit_account_1 = random_digest(&mut rng);
    refs.specials.insert("dummy_exit1".into(), prove_leaf(&d).unwrap_or_else(|e| qpz_core::harness_error(&format!("cannot prove a foreign dummy (exit 1): {e:#}"))).to_bytes());
    let mut d = dummy_inputs().unwrap();
    d.public.exit_account_2 = random_digest(&mut rng);
    refs.specials.insert("dummy_exit2".into(), prove_leaf(&d).unwrap_or_else(|e| qpz_core::harness_error(&format!("cannot prove a foreign dummy (exit 2): {e:#}"))).to_bytes());
    // one valid foreign dummy per single non-zero exit-account limb: a validator that skips one
    // felt of the sentinel is only observable through a proof that VERIFIES and deviates in
    // exactly that felt (an edited proof is caught by verification whatever the sentinel test does)
    for which in 1..=2usize {
        for limb in 0..4usize {
            let mut d = dummy_inputs().unwrap();
            let mut b = [0u8; 32];
            b[limb * 8 + (rng.below(7) as usize)] = 1 + rng.below(200) as u8;
            let acct = BytesDigest::try_from(b).expect("one small limb is canonical");
            if which == 1 {
                d.public.exit_account_1 = acct;
            } else {
                d.public.exit_account_2 = acct;
            }
            refs.specials.insert(format!("dummy_exit{which}_limb{limb}"), prove_leaf(&d).unwrap_or_else(|e| qpz_core::harness_error(&format!("cannot prove a foreign dummy (exit {which}, limb {limb}): {e:#}"))).to_bytes());
        }
    }
    // asset id with only a high bit set (below 2^32)
    let mut d = dummy_inputs().unwrap();
    d.public.asset_id = 1 << 31;
    refs.specials.insert("dummy_asset_high".into(), prove_leaf(&d).unwrap_or_else(|e| qpz_core::harness_error(&format!("cannot prove a foreign dummy (asset 2^31): {e:#}"))).to_bytes());
    if with_pb {
        let mut ns: Vec<usize> = refs.gens.iter().map(|g| g.n).collect();
        ns.sort();
        ns.dedup();
        for n in ns {
            let g = refs.gen_for_n(n).unwrap().clone();
            let p = PrivateBatchProver::new_from_bytes(&g.files["common.bin"], &g.files["verifier.bin"], &g.files["dummy_proof.bin"], n).unwrap_or_else(|e| qpz_core::harness_error(&format!("cannot build the private-batch prover from the reference generation: {e:#}")));
            let proof = p.commit(vec![real.clone()]).and_then(|c| c.prove()).unwrap_or_else(|e| qpz_core::harness_error(&format!("cannot prove a real private batch: {e:#}")));
            refs.specials.insert(format!("real_pb_n{n}"), proof.to_bytes());
            // a real batch whose only leaf pays nothing: non-zero block hash, all-zero exit slots
            let p = PrivateBatchProver::new_from_bytes(&g.files["common.bin"], &g.files["verifier.bin"], &g.files["dummy_proof.bin"], n).unwrap();
            let proof = p.commit(vec![real_zero.clone()]).and_then(|c| c.prove()).unwrap_or_else(|e| qpz_core::harness_error(&format!("cannot prove a zero-exit real private batch: {e:#}")));
            refs.specials.insert(format!("real_pb_zero_exits_n{n}"), proof.to_bytes());
        }
    }
}
