//! SIM-B: artifact store simulation (DESIGN.md section 6).
mod c17;
mod c23;
mod child;
mod fsseam;
mod gens;
mod loaders;
mod sandbox;
mod specials;

use c23::{Eval, Init, PublishRun, Scenario};
use child::{args_of, ChildSpec};
use fsseam::{Fault, FaultKind};
use gens::Gen;
use qpz_core::evidence::{Counters, Evidence};
use qpz_core::rng::{mix, Rng};
use qpz_core::runner::{run_batch, BatchCfg};
use qpz_core::{harness_error, Tier, EXIT_OK, EXIT_VIOLATION};
use sandbox::Sandbox;
use serde::{Deserialize, Serialize};
use serde_json::json;
use std::collections::HashSet;

fn par_map<T: Sync, R: Send>(items: &[T], tag: &str, budget_s: u64, f: impl Fn(&mut Sandbox, &T) -> R + Sync) -> Vec<(usize, R)> {
    let cfg = BatchCfg { first_run: 0, max_runs: items.len() as u64, budget_s, workers: qpz_core::workers(), stop_on_failure: false };
    run_batch(&cfg, |w| Sandbox::new(&format!("{tag}{w}")), |sb, i| f(sb, &items[i as usize]), |_| false)
        .into_iter()
        .map(|(i, r)| (i as usize, r))
        .collect()
}

fn seam_selftest() {
    let mut sb = Sandbox::new("selftest");
    let fs = sb.reset();
    let run = sb.run_child(ChildSpec { action: "seam_selftest".into(), args: args_of(&[("dir", json!(fs.join("t").to_string_lossy()))]), ..Default::default() });
    let Some(r) = run.result else { harness_error("seam self-test child died") };
    if r.result != "ok" {
        harness_error(&format!("seam self-test action failed: {} {}", r.result, r.error));
    }
    let ops: Vec<String> = r.trace.iter().map(|t| format!("{}:{}", t.op, t.path)).collect();
    // every call std::fs makes for this sequence must arrive at the seam, in this order
    let must = ["mkdir:t/a", "open_write:t/a/f", "write:t/a/f", "open_read:t/a/f", "read:t/a/f", "rename:t/a", "stat:t/b", "stat:t/a", "stat:t/b/f", "unlink:t/b/f", "open_write:t/b/g", "write:t/b/g", "unlink:t/b/g", "rmdir:t/b"];
    let mut pos = 0;
    for m in must {
        match ops[pos..].iter().position(|o| o == m) {
            Some(p) => pos += p + 1,
            None => harness_error(&format!("filesystem seam self-test: expected intercept '{m}' not seen in order; trace = {ops:?}")),
        }
    }
    // and a crash fault must kill the child inside the call
    let fs = sb.reset();
    let run = sb.run_child(ChildSpec { action: "seam_selftest".into(), args: args_of(&[("dir", json!(fs.join("t").to_string_lossy()))]), plan: vec![Fault { call: 3, kind: FaultKind::Crash }], ..Default::default() });
    if run.kind() != "crash" || run.exit_code != Some(77) {
        harness_error(&format!("filesystem seam self-test: crash fault did not kill the child (kind {}, exit {:?})", run.kind(), run.exit_code));
    }
    // and an errno fault must surface as an error
    let fs = sb.reset();
    let run = sb.run_child(ChildSpec { action: "seam_selftest".into(), args: args_of(&[("dir", json!(fs.join("t").to_string_lossy()))]), plan: vec![Fault { call: 0, kind: FaultKind::Errno { errno: 5 } }], ..Default::default() });
    if run.kind() != "err" {
        harness_error(&format!("filesystem seam self-test: errno fault did not surface (kind {})", run.kind()));
    }
}

#[derive(Serialize, Deserialize)]
struct ReplayFile {
    property: String,
    sim: String,
    seed: u64,
    class: String,
    detail: String,
    gens: Vec<(usize, Option<usize>)>,
    scenario: Scenario,
}

const SHAPES: &[(usize, Option<usize>)] = &[(1, Some(1)), (2, Some(1)), (1, Some(2)), (1, None)];

struct Acc {
    evals: u64,
    child_runs: u64,
    probes: Counters,
    fired: Counters,
    states: HashSet<u64>,
    nontrivial: HashSet<u64>,
    samples: Vec<serde_json::Value>,
    first: Option<(Scenario, String, String)>,
}

impl Acc {
    fn add(&mut self, sc: &Scenario, ev: &Eval) {
        if let Some(h) = &ev.harness_error {
            harness_error(&format!("{h}; scenario {}", serde_json::to_string(sc).unwrap()));
        }
        self.evals += 1;
        self.child_runs += ev.results.len() as u64;
        self.probes.merge(&ev.probes);
        self.fired.merge(&ev.faults_fired);
        self.states.extend(ev.states.iter().copied());
        let fired: u64 = ev.faults_fired.0.values().sum();
        if fired > 0 {
            self.nontrivial.insert(qpz_core::rng::hash_str(&serde_json::to_string(sc).unwrap()));
        }
        if self.first.is_none() {
            if let Some((c, d)) = ev.findings.first() {
                self.first = Some((sc.clone(), c.clone(), d.clone()));
            }
        }
    }
}

fn check_c23(seed: u64, tier: Tier, replay: Option<String>) -> i32 {
    let t0 = qpz_core::real_now_ns();
    let gens: Vec<Gen> = gens::build_gens(SHAPES);
    if let Some(path) = replay {
        let rf: ReplayFile = serde_json::from_str(&std::fs::read_to_string(&path).unwrap_or_else(|e| harness_error(&format!("cannot read {path}: {e}")))).unwrap_or_else(|e| harness_error(&format!("bad replay file: {e}")));
        let mut sb = Sandbox::new("replay");
        let ev = c23::run_scenario(&mut sb, &gens, &rf.scenario);
        for (i, r) in ev.results.iter().enumerate() {
            println!("  run {i}: reported {r}");
        }
        for (c, d) in &ev.findings {
            println!("replayed: class={c} {d}");
        }
        if ev.findings.iter().any(|(c, _)| c.starts_with("publish:")) {
            println!("VIOLATION property=C23 replay={path}");
            return EXIT_VIOLATION;
        }
        println!("replay: no violation on this tree");
        return EXIT_OK;
    }
    println!("generations built at {:.1}s", (qpz_core::real_now_ns() - t0) as f64 / 1e9);
    let mut acc = Acc { evals: 0, child_runs: 0, probes: Counters::default(), fired: Counters::default(), states: HashSet::new(), nontrivial: HashSet::new(), samples: vec![], first: None };

    // ---- (a) complete enumeration of single and double faults of the publish routine ----
    let baselines: Vec<Scenario> = c23::INITS.iter().map(|i| Scenario { init: *i, prev_gen: 0, runs: vec![PublishRun { new_gen: 1, plan: vec![], action: "commit".into() }], final_gen: None }).collect();
    let base = par_map(&baselines, "enum", 0, |sb, sc| c23::run_scenario(sb, &gens, sc));
    let mut singles: Vec<Scenario> = vec![];
    let mut typical_calls = 0u64;
    for (i, ev) in &base {
        acc.add(&baselines[*i], ev);
        let expect_ok = baselines[*i].init != Init::File;
        if ev.harness_error.is_none() && (ev.results[0] == "ok") != expect_ok {
            harness_error(&format!("fault-free publish from {:?} reported {} (precondition)", baselines[*i].init, ev.results[0]));
        }
        let calls = ev.traces[0].len() as u64;
        typical_calls = typical_calls.max(calls);
        for c in 0..calls {
            for k in c23::all_single_kinds() {
                let mut sc = baselines[*i].clone();
                sc.runs[0].plan = vec![Fault { call: c, kind: k }];
                singles.push(sc);
            }
        }
    }
    acc.samples.push(json!({"fault_free_publish_trace_from_existing_output": base.iter().find(|(i, _)| baselines[*i].init == Init::Dir).map(|(_, ev)| ev.traces[0].iter().map(|t| format!("{} {} {}", t.op, t.path, t.path2)).collect::<Vec<_>>())}));
    let single_res = par_map(&singles, "enum", 0, |sb, sc| c23::run_scenario(sb, &gens, sc));
    let mut pairs: Vec<Scenario> = vec![];
    let quick = tier == Tier::Quick;
    for (i, ev) in &single_res {
        acc.add(&singles[*i], ev);
        let f0 = &singles[*i].runs[0].plan[0];
        if f0.kind == FaultKind::Crash || ev.traces.is_empty() {
            continue;
        }
        // pairs: the first fault's errno set is reduced to the kinds the code branches on (plus EIO)
        let first_ok = match &f0.kind {
            FaultKind::Errno { errno } => c23::PAIR_ERRNOS.contains(errno) || !quick,
            FaultKind::ShortWrite | FaultKind::ShortRead => false,
            FaultKind::Crash => false,
        };
        if !first_ok {
            continue;
        }
        // adaptive: the second index ranges over the calls of the realised sequence after the first fault
        let realised = ev.traces[0].len() as u64;
        for j in (f0.call + 1)..realised {
            for k in c23::pair_second_kinds() {
                let mut sc = singles[*i].clone();
                sc.runs[0].plan.push(Fault { call: j, kind: k });
                pairs.push(sc);
            }
        }
    }
    let n_singles = singles.len();
    let pair_res = par_map(&pairs, "enum", 0, |sb, sc| c23::run_scenario(sb, &gens, sc));
    for (i, ev) in &pair_res {
        acc.add(&pairs[*i], ev);
    }
    let n_pairs = pairs.len();
    if let Some((_, ev)) = pair_res.iter().find(|(_, ev)| ev.results.first().map(|r| r == "crash").unwrap_or(false)) {
        let _ = ev;
    }
    if let Some((i, _)) = pair_res.first() {
        acc.samples.push(json!({"double_fault_scenario": pairs[*i]}));
    }
    // ---- (a') enumerated two-run histories: a first publish that dies at each of its calls (what leaves
    // the previous set moved aside, the new one not yet live, or debris next to the output), then a second
    // builder run that goes through the real staging-directory creation and dies or fails at each of ITS calls
    let mut two_run: Vec<Scenario> = vec![];
    {
        let probe = Scenario { init: Init::Dir, prev_gen: 0, runs: vec![PublishRun { new_gen: 1, plan: vec![], action: "commit".into() }, PublishRun { new_gen: 2, plan: vec![], action: "stage_and_commit".into() }], final_gen: None };
        let mut sb = Sandbox::new("probe2");
        let pev = c23::run_scenario(&mut sb, &gens, &probe);
        if pev.harness_error.is_some() || pev.results != vec!["ok".to_string(), "ok".to_string()] || !pev.findings.is_empty() {
            harness_error(&format!("fault-free two-run history (commit, then stage_and_commit) reported {:?} / {:?} (precondition)", pev.results, pev.findings));
        }
        let (l1, l2) = (pev.traces[0].len() as u64, pev.traces[1].len() as u64);
        for init in [Init::Dir, Init::NoOutput] {
            for c in 0..l1 {
                for j in 0..l2 + 2 {
                    for k2 in [FaultKind::Crash, FaultKind::Errno { errno: 5 }] {
                        two_run.push(Scenario { init, prev_gen: 0, runs: vec![PublishRun { new_gen: 1, plan: vec![Fault { call: c, kind: FaultKind::Crash }], action: "commit".into() }, PublishRun { new_gen: 2, plan: vec![Fault { call: j, kind: k2 }], action: "stage_and_commit".into() }], final_gen: None });
                    }
                }
            }
        }
    }
    let two_res = par_map(&two_run, "enum2", 0, |sb, sc| c23::run_scenario(sb, &gens, sc));
    for (i, ev) in &two_res {
        acc.add(&two_run[*i], ev);
    }
    let n_two_run = two_run.len();
    if let Some((i, _)) = two_res.first() {
        acc.samples.push(json!({"two_run_scenario": two_run[*i]}));
    }
    let enumerated = baselines.len() + n_singles + n_pairs + n_two_run;

    println!("phase enumeration done at {:.1}s", (qpz_core::real_now_ns() - t0) as f64 / 1e9);
    // ---- (b) seeded multi-run histories ----
    let n_hist: u64 = if quick { 400 } else { 20_000 };
    let hist_budget = if quick { 0 } else { qpz_core::budget_s(600) / 2 };
    let hseeds: Vec<u64> = (0..n_hist).map(|i| mix(seed, 0x2300_0000 + i)).collect();
    let hist_res = par_map(&hseeds, "hist", hist_budget, |sb, s| {
        let mut r = Rng::new(*s);
        let sc = c23::random_history(&gens[..3], &mut r, typical_calls);
        let ev = c23::run_scenario(sb, &gens, &sc);
        (sc, ev)
    });
    for (_, (sc, ev)) in &hist_res {
        acc.add(sc, ev);
    }
    if let Some((_, (sc, ev))) = hist_res.iter().find(|(_, (_, ev))| ev.faults_fired.0.values().sum::<u64>() >= 2) {
        acc.samples.push(json!({"history": sc, "reported": ev.results}));
    }
    let n_histories = hist_res.len();

    println!("phase histories done at {:.1}s", (qpz_core::real_now_ns() - t0) as f64 / 1e9);
    // ---- (c) the full pipeline (generate_all_circuit_binaries) with faults ----
    let gbase: Vec<Scenario> = [Init::NoOutput, Init::Dir].iter().map(|i| Scenario { init: *i, prev_gen: 1, runs: vec![PublishRun { new_gen: 0, plan: vec![], action: "generate".into() }], final_gen: None }).collect();
    let gb = par_map(&gbase, "gen", 0, |sb, sc| c23::run_scenario(sb, &gens, sc));
    let mut gscen: Vec<Scenario> = vec![];
    let mut grng = Rng::new(mix(seed, 0x23_6e6e));
    for (i, ev) in &gb {
        acc.add(&gbase[*i], ev);
        if ev.results[0] != "ok" || !ev.findings.is_empty() {
            harness_error(&format!("fault-free generate_all_circuit_binaries from {:?} reported {} / {:?} (precondition)", gbase[*i].init, ev.results[0], ev.findings));
        }
        let calls = ev.traces[0].len() as u64;
        let first_rename = ev.traces[0].iter().position(|t| t.op == "rename").unwrap_or(calls as usize) as u64;
        acc.probes.add("full_pipeline_calls", calls);
        // enumerated: every rename of the publish phase reached THROUGH the public entry point
        // (what wraps the publish routine - guards, cleanup on error paths - only runs here):
        // fail it, fail it together with the call that follows (the rollback), crash at and after it
        let renames: Vec<u64> = ev.traces[0].iter().enumerate().filter(|(_, t)| t.op == "rename").map(|(i, _)| i as u64).collect();
        for r in &renames {
            for plan in [
                vec![Fault { call: *r, kind: FaultKind::Errno { errno: 5 } }],
                vec![Fault { call: *r, kind: FaultKind::Errno { errno: 5 } }, Fault { call: *r + 1, kind: FaultKind::Errno { errno: 5 } }],
                vec![Fault { call: *r, kind: FaultKind::Errno { errno: 5 } }, Fault { call: *r + 1, kind: FaultKind::Errno { errno: 2 } }],
                vec![Fault { call: *r, kind: FaultKind::Crash }],
                vec![Fault { call: *r + 1, kind: FaultKind::Crash }],
            ] {
                let mut sc = gbase[*i].clone();
                sc.runs[0].plan = plan;
                gscen.push(sc);
            }
        }
        acc.probes.add("full_pipeline_rename_scenarios", renames.len() as u64 * 5);
        // enumerated: the generation fails while writing each of its output files in turn (the first
        // write of every distinct staged file), i.e. in every stage: leaf, private batch, public batch, config
        let mut seen_files: Vec<String> = vec![];
        for (ci, t) in ev.traces[0].iter().enumerate() {
            if t.op == "write" && (ci as u64) < first_rename && !seen_files.contains(&t.path) {
                seen_files.push(t.path.clone());
                let mut sc = gbase[*i].clone();
                sc.runs[0].plan = vec![Fault { call: ci as u64, kind: FaultKind::Errno { errno: 28 } }];
                gscen.push(sc);
            }
        }
        acc.probes.add("full_pipeline_per_file_write_failures", seen_files.len() as u64);
        let n = if quick { 5 } else { 150 };
        for k in 0..n {
            // half of the faults in the generation phase, half in the publish phase
            let call = if k % 2 == 0 { grng.below(first_rename.max(1)) } else { first_rename + grng.below((calls - first_rename).max(1)) };
            let kinds = c23::all_single_kinds();
            let kind = if k % 3 == 0 { FaultKind::Crash } else { grng.pick(&kinds).clone() };
            let mut sc = gbase[*i].clone();
            sc.runs[0].plan = vec![Fault { call, kind }];
            // some with a second fault later on (possibly in the cleanup)
            if k % 4 == 3 {
                sc.runs[0].plan.push(Fault { call: call + 1 + grng.below(6), kind: FaultKind::Errno { errno: 5 } });
            }
            gscen.push(sc);
        }
    }
    let gen_budget = if quick { 0 } else { qpz_core::budget_s(600) / 2 };
    let gres = par_map(&gscen, "gen", gen_budget, |sb, sc| c23::run_scenario(sb, &gens, sc));
    for (i, ev) in &gres {
        acc.add(&gscen[*i], ev);
    }
    if let Some((i, ev)) = gres.first() {
        acc.samples.push(json!({"full_pipeline_scenario": gscen[*i], "reported": ev.results}));
    }
    let n_gen = gres.len() + gb.len();

    // ---- verdict ----
    let wall = (qpz_core::real_now_ns() - t0) as f64 / 1e9;
    let mut exit = EXIT_OK;
    let mut violations = 0;
    let mut replay_path = String::new();
    if let Some((sc, class, detail)) = acc.first.clone() {
        violations = 1;
        // minimise: drop runs and faults while the same class persists
        let mut best = sc.clone();
        let mut sb = Sandbox::new("min");
        let mut fails = |cand: &Scenario| c23::run_scenario(&mut sb, &gens, cand).findings.iter().any(|(c, _)| *c == class);
        loop {
            let mut improved = false;
            for ri in 0..best.runs.len() {
                if best.runs.len() > 1 {
                    let mut c = best.clone();
                    c.runs.remove(ri);
                    if fails(&c) {
                        best = c;
                        improved = true;
                        break;
                    }
                }
                for fi in 0..best.runs[ri].plan.len() {
                    let mut c = best.clone();
                    c.runs[ri].plan.remove(fi);
                    if fails(&c) {
                        best = c;
                        improved = true;
                        break;
                    }
                }
                if improved {
                    break;
                }
            }
            if !improved && best.final_gen.is_some() && !class.contains("no-progress") {
                let mut c = best.clone();
                c.final_gen = None;
                if fails(&c) {
                    best = c;
                    improved = true;
                }
            }
            if !improved {
                break;
            }
        }
        let final_ok = fails(&best);
        let scen = if final_ok { best } else { sc };
        let rf = ReplayFile { property: "C23".into(), sim: "store".into(), seed, class: class.clone(), detail: detail.clone(), gens: SHAPES.to_vec(), scenario: scen };
        replay_path = format!("{}/C23-{}.json", qpz_core::replay_dir(), qpz_core::rng::hash_str(&serde_json::to_string(&rf.scenario).unwrap()));
        std::fs::write(&replay_path, serde_json::to_string_pretty(&rf).unwrap()).unwrap();
        println!("violation class={class}: {detail}");
        println!("VIOLATION property=C23 replay={replay_path}");
        exit = EXIT_VIOLATION;
    }
    let mut extra = serde_json::Map::new();
    extra.insert("enumerated_publish_scenarios".into(), json!(enumerated));
    extra.insert("enumerated_single_faults".into(), json!(n_singles));
    extra.insert("enumerated_fault_pairs".into(), json!(n_pairs));
    extra.insert("enumerated_two_run_histories".into(), json!(n_two_run));
    extra.insert("seeded_histories".into(), json!(n_histories));
    extra.insert("full_pipeline_runs".into(), json!(n_gen));
    extra.insert("builder_child_processes".into(), json!(acc.child_runs));
    extra.insert("runs_per_hour".into(), json!((acc.evals as f64 / wall * 3600.0).round()));
    extra.insert("faults_fired".into(), acc.fired.to_json());
    extra.insert("reach_probes".into(), acc.probes.to_json());
    extra.insert("distinct_abstract_states".into(), json!(acc.states.len()));
    extra.insert("simulated_time".into(), json!("not applicable: the publisher has no timers; progress is measured in system calls"));
    extra.insert("components".into(), json!({
        "real": ["commit_staging_dir / commit_staging_dir_impl / create_staging_dir (via guarded forwarders)", "generate_all_circuit_binaries and the three stage generators (full-pipeline runs)", "std::fs", "a real directory tree on tmpfs"],
        "stub": [],
        "simulated": ["system-call outcomes (errno, short write) and process death at a chosen system call, by libc interposition in a child process"]
    }));
    if !replay_path.is_empty() {
        extra.insert("replay".into(), json!(replay_path));
    }
    let ev = Evidence {
        property_id: "C23".into(),
        tier: tier.as_str().into(),
        seed,
        level: "fault_enumeration".into(),
        evaluations: acc.evals,
        distinct_nontrivial: acc.nontrivial.len() as u64,
        rule: "one evaluation = one scenario (initial state x builder runs x fault plan) executed by the real publisher in child processes and judged on the real directory tree; distinct = distinct scenario; non-trivial = at least one injected fault actually fired. Singles: every call index of the publish routine x {crash, short write, 11 errnos} from 5 initial states; pairs: adaptive second index over the realised call sequence".into(),
        samples: acc.samples.clone(),
        exhaustive: Some(true),
        extra,
        assumptions: vec![
            "crash model is process death: everything a completed system call did is on disk (the code never fsyncs and the property does not claim power-loss safety)".into(),
            "exhaustive refers to parts (a): single and double faults of the publish routine for a 9-file set from the five initial states, with the stated errno sets; histories and full-pipeline runs are sampled".into(),
            "symlinks, FIFOs and concurrent local writers are excluded (THREAT_MODEL.md)".into(),
        ],
        wall_s: wall,
        violations,
    };
    ev.write(&qpz_core::evidence_path("C23")).unwrap_or_else(|e| harness_error(&format!("cannot write evidence: {e}")));
    println!("C23: scenarios={} (singles {n_singles}, pairs {n_pairs}, histories {n_histories}, full pipeline {n_gen}) child_runs={} states={} wall={wall:.1}s", acc.evals, acc.child_runs, acc.states.len());
    exit
}


#[derive(Serialize, Deserialize)]
struct LoadReplayFile {
    property: String,
    sim: String,
    seed: u64,
    class: String,
    detail: String,
    #[serde(default)]
    case: Option<c17::LoadCase>,
    #[serde(default)]
    boot_history: Option<c17::BootHistory>,
    #[serde(default)]
    template_history: Option<c17::TemplateHistory>,
}

fn run_load_cases(refs: &c17::Refs, cases: &[c17::LoadCase], tag: &str, budget_s: u64, leaf_path: &str, pb_path: &str) -> Vec<(usize, c17::LoadEval)> {
    par_map(cases, tag, budget_s, |sb, c| c17::run_load(sb, refs, c, &[("leaf_proof", json!(leaf_path)), ("inner_proof", json!(pb_path))]))
}

struct LoadAcc {
    evals: u64,
    probes: Counters,
    fired: Counters,
    states: HashSet<u64>,
    nontrivial: HashSet<u64>,
    first: Option<(c17::LoadCase, String, String)>,
    first_history: Option<(Option<c17::BootHistory>, Option<c17::TemplateHistory>, String, String)>,
    histories: u64,
    samples: Vec<serde_json::Value>,
    abnormal: u64,
}

impl LoadAcc {
    fn new() -> Self {
        LoadAcc { evals: 0, probes: Counters::default(), fired: Counters::default(), states: HashSet::new(), nontrivial: HashSet::new(), first: None, first_history: None, histories: 0, samples: vec![], abnormal: 0 }
    }
    fn add(&mut self, case: &c17::LoadCase, ev: &c17::LoadEval, prefix_ok: &dyn Fn(&str) -> bool) {
        self.evals += 1;
        self.probes.merge(&ev.probes);
        self.fired.merge(&ev.faults_fired);
        self.states.insert(ev.state);
        if !case.faults.is_empty() || !case.io_plan.is_empty() {
            self.nontrivial.insert(qpz_core::rng::hash_str(&serde_json::to_string(case).unwrap()));
        }
        if matches!(ev.kind.as_str(), "panic" | "died") {
            self.abnormal += 1;
        }
        if self.first.is_none() {
            if let Some((c, d)) = ev.findings.iter().find(|(c, _)| prefix_ok(c)) {
                self.first = Some((case.clone(), c.clone(), d.clone()));
            }
        }
    }
}

impl LoadAcc {
    fn add_history(&mut self, bh: Option<&c17::BootHistory>, th: Option<&c17::TemplateHistory>, ev: &c17::HistoryEval, prefix_ok: &dyn Fn(&str) -> bool) {
        self.evals += 1;
        self.histories += 1;
        self.probes.merge(&ev.probes);
        if ev.died {
            self.abnormal += 1;
        }
        let key = format!("{}{}", bh.map(|h| serde_json::to_string(h).unwrap()).unwrap_or_default(), th.map(|h| serde_json::to_string(h).unwrap()).unwrap_or_default());
        self.nontrivial.insert(qpz_core::rng::hash_str(&key));
        self.states.insert(qpz_core::rng::hash_str(&format!("{:?}", ev.results)));
        if let Some((c, d)) = ev.findings.iter().find(|(c, _)| c.starts_with("harness:")) {
            harness_error(&format!("{c}: {d}"));
        }
        if self.first.is_none() && self.first_history.is_none() {
            if let Some((c, d)) = ev.findings.iter().find(|(c, _)| prefix_ok(c)) {
                self.first_history = Some((bh.cloned(), th.cloned(), c.clone(), d.clone()));
            }
        }
    }
}

fn write_specials(refs: &c17::Refs) -> (String, String) {
    let dir = sandbox::session_root().join("specials");
    std::fs::create_dir_all(&dir).unwrap();
    let leaf = dir.join("real_leaf.bin");
    std::fs::write(&leaf, &refs.specials["real_leaf"]).unwrap();
    let pb = dir.join("real_pb_n1.bin");
    if let Some(b) = refs.specials.get("real_pb_n1") {
        std::fs::write(&pb, b).unwrap();
    }
    (leaf.to_string_lossy().into_owned(), pb.to_string_lossy().into_owned())
}

fn finish_load_check(property: &str, tier: Tier, seed: u64, t0: u64, acc: LoadAcc, refs: &c17::Refs, rule: &str, exhaustive: bool, extra_in: serde_json::Map<String, serde_json::Value>, leaf_path: &str, pb_path: &str) -> i32 {
    let wall = (qpz_core::real_now_ns() - t0) as f64 / 1e9;
    let mut exit = EXIT_OK;
    let mut violations = 0;
    let mut replay_path = String::new();
    if let Some((case, class, detail)) = acc.first.clone() {
        violations = 1;
        // minimise: drop storage faults / io faults while the same class persists
        let mut best = case.clone();
        let mut sb = Sandbox::new("min");
        let mut fails = |c: &c17::LoadCase| c17::run_load(&mut sb, refs, c, &[("leaf_proof", json!(leaf_path)), ("inner_proof", json!(pb_path))]).findings.iter().any(|(k, _)| *k == class);
        loop {
            let mut improved = false;
            for i in 0..best.faults.len() {
                let mut c = best.clone();
                c.faults.remove(i);
                if fails(&c) {
                    best = c;
                    improved = true;
                    break;
                }
            }
            if !improved && !best.io_plan.is_empty() {
                let mut c = best.clone();
                c.io_plan.clear();
                if fails(&c) {
                    best = c;
                    improved = true;
                }
            }
            if !improved {
                break;
            }
        }
        let case = if fails(&best) { best } else { case };
        let rf = LoadReplayFile { property: property.into(), sim: "store".into(), seed, class: class.clone(), detail: detail.clone(), case: Some(case), boot_history: None, template_history: None };
        replay_path = format!("{}/{property}-{}.json", qpz_core::replay_dir(), qpz_core::rng::hash_str(&serde_json::to_string(&rf.case).unwrap()));
        std::fs::write(&replay_path, serde_json::to_string_pretty(&rf).unwrap()).unwrap();
        println!("violation class={class}: {detail}");
        println!("VIOLATION property={property} replay={replay_path}");
        exit = EXIT_VIOLATION;
    }
    if exit == EXIT_OK {
        if let Some((bh, th, class, detail)) = acc.first_history.clone() {
            violations = 1;
            // minimise: drop steps while the same class persists
            let mut sb = Sandbox::new("min");
            let (mut bh, mut th) = (bh, th);
            loop {
                let mut improved = false;
                if let Some(h) = &bh {
                    for i in 0..h.steps.len() {
                        if h.steps.len() <= 1 {
                            break;
                        }
                        let mut c = h.clone();
                        c.steps.remove(i);
                        if c17::run_boot_history(&mut sb, refs, &c).findings.iter().any(|(k, _)| *k == class) {
                            bh = Some(c);
                            improved = true;
                            break;
                        }
                    }
                }
                if let Some(h) = &th {
                    for i in 0..h.steps.len() {
                        if h.steps.len() <= 1 {
                            break;
                        }
                        let mut c = h.clone();
                        c.steps.remove(i);
                        if c17::run_template_history(&mut sb, refs, &c).findings.iter().any(|(k, _)| *k == class) {
                            th = Some(c);
                            improved = true;
                            break;
                        }
                    }
                }
                if !improved {
                    break;
                }
            }
            let rf = LoadReplayFile { property: property.into(), sim: "store".into(), seed, class: class.clone(), detail: detail.clone(), case: None, boot_history: bh, template_history: th };
            replay_path = format!("{}/{property}-h{}.json", qpz_core::replay_dir(), qpz_core::rng::hash_str(&serde_json::to_string(&rf).unwrap()));
            std::fs::write(&replay_path, serde_json::to_string_pretty(&rf).unwrap()).unwrap();
            println!("violation class={class}: {detail}");
            println!("VIOLATION property={property} replay={replay_path}");
            exit = EXIT_VIOLATION;
        }
    }
    let mut extra = extra_in;
    extra.insert("in_process_histories".into(), json!(acc.histories));
    extra.insert("consumer_boots".into(), json!(acc.evals));
    extra.insert("runs_per_hour".into(), json!((acc.evals as f64 / wall * 3600.0).round()));
    extra.insert("faults_fired".into(), acc.fired.to_json());
    extra.insert("reach_probes".into(), acc.probes.to_json());
    extra.insert("abnormal_terminations_counted_not_alarmed".into(), json!(acc.abnormal));
    extra.insert("distinct_loader_outcome_fault_classes".into(), json!(acc.states.len()));
    extra.insert("simulated_time".into(), json!("not applicable: loaders have no timers; progress is measured in consumer boots and system calls"));
    extra.insert("components".into(), json!({
        "real": ["every loader/constructor named in the property (child process per boot)", "canonical circuit rebuilds inside the loaders", "plonky2 (de)serialisation and verification", "std::fs on a tmpfs directory"],
        "stub": [],
        "simulated": ["storage faults at rest (bit flip, truncation, extension, zero fill, torn/lost/misdirected write, missing, sparse oversize, poison prover files, config variants)", "I/O faults at load time (errno, EINTR, short read) by libc interposition"]
    }));
    if !replay_path.is_empty() {
        extra.insert("replay".into(), json!(replay_path));
    }
    let ev = Evidence {
        property_id: property.into(),
        tier: tier.as_str().into(),
        seed,
        level: "fault_enumeration".into(),
        evaluations: acc.evals,
        distinct_nontrivial: acc.nontrivial.len() as u64,
        rule: rule.into(),
        samples: acc.samples.clone(),
        exhaustive: Some(exhaustive),
        extra,
        assumptions: vec![
            "reference generations (what 'canonical for this shape' means) are produced by the real builder from the working tree at the start of the check".into(),
            "abnormal termination of a loader (panic, abort) is not acceptance and is counted, not alarmed".into(),
            "symlinks, FIFOs and concurrent local writers are excluded (THREAT_MODEL.md)".into(),
        ],
        wall_s: wall,
        violations,
    };
    ev.write(&qpz_core::evidence_path(property)).unwrap_or_else(|e| harness_error(&format!("cannot write evidence: {e}")));
    println!("{property}: boots={} abnormal={} classes={} wall={wall:.1}s", acc.evals, acc.abnormal, acc.states.len());
    exit
}

fn replay_load(property: &str, path: &str, refs: &c17::Refs, leaf_path: &str, pb_path: &str, prefix_ok: &dyn Fn(&str) -> bool) -> i32 {
    let rf: LoadReplayFile = serde_json::from_str(&std::fs::read_to_string(path).unwrap_or_else(|e| harness_error(&format!("cannot read {path}: {e}")))).unwrap_or_else(|e| harness_error(&format!("bad replay file: {e}")));
    let mut sb = Sandbox::new("replay");
    let findings: Vec<(String, String)> = if let Some(h) = &rf.boot_history {
        let ev = c17::run_boot_history(&mut sb, refs, h);
        println!("  steps reported {:?}", ev.results);
        ev.findings
    } else if let Some(h) = &rf.template_history {
        let ev = c17::run_template_history(&mut sb, refs, h);
        println!("  steps reported {:?}", ev.results);
        ev.findings
    } else {
        let case = rf.case.as_ref().unwrap_or_else(|| harness_error("replay file has no case"));
        let ev = c17::run_load(&mut sb, refs, case, &[("leaf_proof", json!(leaf_path)), ("inner_proof", json!(pb_path))]);
        println!("  {} reported {} {}", case.loader, ev.kind, ev.error);
        ev.findings
    };
    for (c, d) in &findings {
        println!("replayed: class={c} {d}");
    }
    if findings.iter().any(|(c, _)| prefix_ok(c)) {
        println!("VIOLATION property={property} replay={path}");
        return EXIT_VIOLATION;
    }
    println!("replay: no violation on this tree");
    EXIT_OK
}

fn c17_class(c: &str) -> bool {
    matches!(c, "load:non-canonical-artifact-accepted" | "load:oversize-file-read" | "load:oversize-file-accepted" | "load:prover-artifact-read" | "load:accepted-without-config")
}
fn c16_class(c: &str) -> bool {
    matches!(c, "load:bad-template-accepted" | "load:rejecting-stage-wrote-output")
}

fn check_c17(seed: u64, tier: Tier, replay: Option<String>) -> i32 {
    let t0 = qpz_core::real_now_ns();
    let mut refs = c17::Refs::new(gens::build_gens(SHAPES));
    specials::build_specials(&mut refs, seed, true);
    let (leaf_path, pb_path) = write_specials(&refs);
    if let Some(p) = replay {
        return replay_load("C17", &p, &refs, &leaf_path, &pb_path, &c17_class);
    }
    println!("references built at {:.1}s", (qpz_core::real_now_ns() - t0) as f64 / 1e9);
    let quick = tier == Tier::Quick;
    let mut acc = LoadAcc::new();
    // (a) enumeration: loader x file x fault kind (quick: a seeded sample that keeps the per-loader essentials)
    let all = c17::c17_enumeration(&refs);
    let total_enum = all.len();
    let mut rng = Rng::new(mix(seed, 0x1717));
    let cases: Vec<c17::LoadCase> = if quick {
        // always: fault-free, poison prover files, everything for the two cheap loaders, and for every
        // (loader, file) the faults a single-site slip is most likely to let through: one byte over
        // the cap, the same file canonical for ANOTHER shape, a flip in the middle and at the end of the
        // file, the canonical bytes followed by a few more
        all.into_iter()
            .filter(|c| {
                c.faults.is_empty()
                    || matches!(c.faults[0], c17::SFault::ExtraProver { .. })
                    || c.loader == "load_leaf_verifier"
                    || c.loader == "load_config"
                    || matches!(&c.faults[0], c17::SFault::Oversize { bytes, .. } if *bytes == c17::AGG_CAP + 1 || *bytes == c17::VERIFIER_CAP + 1)
                    || matches!(&c.faults[0], c17::SFault::Lost { file, .. } if file != "config.json" && !file.starts_with("dummy_"))
                    || matches!(&c.faults[0], c17::SFault::BitFlip { offset, .. } if *offset > 4)
                    || matches!(&c.faults[0], c17::SFault::Extend { n: 8, .. })
                    || matches!(&c.faults[0], c17::SFault::OtherConfig { .. })
                    || rng.chance(1, 8)
            })
            .collect()
    } else {
        all
    };
    // L-noprover through commit and prove as well
    let mut cases = cases;
    cases.push(c17::LoadCase { gen: 0, faults: c17::prover_poison(), loader: "private_commit_prove".into(), io_plan: vec![], fseed: 1 });
    cases.push(c17::LoadCase { gen: 0, faults: c17::prover_poison(), loader: "public_commit_prove".into(), io_plan: vec![], fseed: 1 });
    cases.push(c17::LoadCase { gen: 0, faults: c17::prover_poison(), loader: "load_leaf_verifier_bytes".into(), io_plan: vec![], fseed: 1 });
    let res = run_load_cases(&refs, &cases, "c17e", 0, &leaf_path, &pb_path);
    for (i, ev) in &res {
        // L-sane: with no fault the loader must accept (precondition, not a violation of C17)
        if cases[*i].faults.iter().all(|f| matches!(f, c17::SFault::ExtraProver { .. })) && cases[*i].io_plan.is_empty() && !ev.accepted {
            harness_error(&format!("{} rejected the unfaulted reference generation: {} {}", cases[*i].loader, ev.kind, ev.error));
        }
        acc.add(&cases[*i], ev, &c17_class);
    }
    let n_enum = res.len();
    acc.samples.push(json!({"enumerated_case": cases.iter().find(|c| !c.faults.is_empty() && c.loader == "load_aggregator")}));
    println!("enumeration ({n_enum} of {total_enum}) done at {:.1}s", (qpz_core::real_now_ns() - t0) as f64 / 1e9);
    // (b) seeded exploration
    let n_rand: u64 = if quick { 36 } else { 100_000 };
    let budget = if quick { 0 } else { qpz_core::budget_s(600) };
    let seeds: Vec<u64> = (0..n_rand).map(|i| mix(seed, 0x1700_0000 + i)).collect();
    let rres = par_map(&seeds, "c17r", budget, |sb, s| {
        let mut r = Rng::new(*s);
        let case = c17::c17_random_case(&refs, &mut r);
        let ev = c17::run_load(sb, &refs, &case, &[("leaf_proof", json!(leaf_path)), ("inner_proof", json!(pb_path))]);
        (case, ev)
    });
    for (_, (case, ev)) in &rres {
        acc.add(case, ev, &c17_class);
    }
    if let Some((_, (case, ev))) = rres.iter().find(|(_, (c, _))| c.faults.len() >= 2) {
        acc.samples.push(json!({"seeded_case": case, "reported": ev.kind}));
    }
    // (c) artifact rotation inside ONE long-running process: acceptance must not depend on history
    // enumerated two-step rotations (pin a genuine set, then boot the same loader from each mixed
    // variant) for one ordered pair of generations in quick, all six pairs in thorough
    let mut prng = Rng::new(mix(seed, 0x17AA));
    let pairs: Vec<(usize, usize)> = if quick {
        let a = prng.usize(3);
        vec![(a, (a + 1 + prng.usize(2)) % 3)]
    } else {
        vec![(0, 1), (1, 0), (0, 2), (2, 0), (1, 2), (2, 1)]
    };
    let mut ph: Vec<c17::BootHistory> = vec![];
    for (a, b) in &pairs {
        ph.extend(c17::pair_histories(&refs, *a, *b, &mut prng));
    }
    let pres = par_map(&ph, "c17p", 0, |sb, h| c17::run_boot_history(sb, &refs, h));
    for (i, ev) in &pres {
        acc.add_history(Some(&ph[*i]), None, ev, &c17_class);
    }
    let n_hist: u64 = if quick { 4 } else { 2_000 };
    let hseeds: Vec<u64> = (0..n_hist).map(|i| mix(seed, 0x17A0_0000 + i)).collect();
    let hres = par_map(&hseeds, "c17h", if quick { 0 } else { qpz_core::budget_s(600) / 2 }, |sb, s| {
        let mut r = Rng::new(*s);
        let h = c17::random_boot_history(&refs, &mut r);
        let ev = c17::run_boot_history(sb, &refs, &h);
        (h, ev)
    });
    for (_, (h, ev)) in &hres {
        acc.add_history(Some(h), None, ev, &c17_class);
    }
    if let Some((_, (h, ev))) = hres.first() {
        acc.samples.push(json!({"rotation_history_in_one_process": h.steps, "reported": ev.results}));
    }
    let mut extra = serde_json::Map::new();
    extra.insert("enumeration_size".into(), json!(total_enum));
    extra.insert("enumeration_executed".into(), json!(n_enum));
    extra.insert("seeded_directories".into(), json!(rres.len()));
    finish_load_check("C17", tier, seed, t0, acc, &refs, "one evaluation = one consumer boot (child process) from a bins directory with storage faults applied, judged by L-pin / L-cap / L-noprover on what the loader read (from the system-call trace) and returned; distinct = distinct (generation, fault list, loader, I/O plan); non-trivial = at least one fault present", !quick, extra, &leaf_path, &pb_path)
}

fn check_c16(seed: u64, tier: Tier, replay: Option<String>) -> i32 {
    let t0 = qpz_core::real_now_ns();
    let mut refs = c17::Refs::new(gens::build_gens(SHAPES));
    specials::build_specials(&mut refs, seed, true);
    let (leaf_path, pb_path) = write_specials(&refs);
    if let Some(p) = replay {
        return replay_load("C16", &p, &refs, &leaf_path, &pb_path, &c16_class);
    }
    println!("references built at {:.1}s", (qpz_core::real_now_ns() - t0) as f64 / 1e9);
    let quick = tier == Tier::Quick;
    let mut acc = LoadAcc::new();
    let mut rng = Rng::new(mix(seed, 0x1616));
    let mut cases: Vec<c17::LoadCase> = vec![];
    let shapes: Vec<usize> = if quick { vec![0] } else { vec![0, 1, 2] };
    let extra_pos = if quick { 0 } else { 12 };
    for gi in shapes {
        let g = &refs.gens[gi];
        let other = if gi == 1 { 0 } else { 1 };
        // quick: per entry point every valid-but-wrong proof plus a seeded third of the other
        // template faults (a different third for another VERIF_SEED); thorough: all of them
        let mut pick = |f: &c17::SFault, rng: &mut Rng| !quick || matches!(f, c17::SFault::Special { .. }) || rng.chance(1, 4);
        for ep in c17::LEAF_TEMPLATE_ENTRY_POINTS {
            cases.push(c17::LoadCase { gen: gi, faults: vec![], loader: ep.to_string(), io_plan: vec![], fseed: 1 });
            for f in c17::leaf_template_faults(g.files["dummy_proof.bin"].len() as u64, &mut rng, extra_pos) {
                if pick(&f, &mut rng) {
                    cases.push(c17::LoadCase { gen: gi, faults: vec![f], loader: ep.to_string(), io_plan: vec![], fseed: 3 });
                }
            }
        }
        for ep in c17::PB_TEMPLATE_ENTRY_POINTS {
            cases.push(c17::LoadCase { gen: gi, faults: vec![], loader: ep.to_string(), io_plan: vec![], fseed: 1 });
            for f in c17::pb_template_faults(g.n, g.files["dummy_private_batch_proof.bin"].len() as u64, other, &mut rng, extra_pos) {
                if pick(&f, &mut rng) {
                    cases.push(c17::LoadCase { gen: gi, faults: vec![f], loader: ep.to_string(), io_plan: vec![], fseed: 3 });
                }
            }
        }
    }
    let budget = if quick { 0 } else { qpz_core::budget_s(900) };
    let res = run_load_cases(&refs, &cases, "c16", budget, &leaf_path, &pb_path);
    let mut rejected = 0u64;
    let mut accepted_ok_predicate = 0u64;
    for (i, ev) in &res {
        if cases[*i].faults.is_empty() && !ev.accepted {
            harness_error(&format!("{} rejected the genuine template of the reference generation: {} {}", cases[*i].loader, ev.kind, ev.error));
        }
        if !cases[*i].faults.is_empty() {
            if ev.accepted {
                accepted_ok_predicate += 1;
            } else {
                rejected += 1;
            }
        }
        acc.add(&cases[*i], ev, &c16_class);
    }
    // histories inside ONE process: object constructors pinned to different verifiers, and artifact
    // rotation; a template must be judged against the verifier of THIS call, whatever came before
    let n_th: u64 = if quick { 6 } else { 400 };
    let tseeds: Vec<u64> = (0..n_th).map(|i| mix(seed, 0x16A0_0000 + i)).collect();
    let tres = par_map(&tseeds, "c16t", if quick { 0 } else { qpz_core::budget_s(900) / 4 }, |sb, s| {
        let mut r = Rng::new(*s);
        let h = c17::random_template_history(&mut r);
        let ev = c17::run_template_history(sb, &refs, &h);
        (h, ev)
    });
    for (_, (h, ev)) in &tres {
        acc.add_history(None, Some(h), ev, &c16_class);
    }
    if let Some((_, (h, ev))) = tres.first() {
        acc.samples.push(json!({"template_history_in_one_process": h.steps, "reported": ev.results}));
    }
    // enumerated: a genuine template accepted first, then every entry point offered the same
    // template with a flipped proof body, all inside one process
    let mh: Vec<c17::BootHistory> = if quick { c17::template_memo_histories(0) } else { (0..3).flat_map(c17::template_memo_histories).collect() };
    let mres = par_map(&mh, "c16m", 0, |sb, h| c17::run_boot_history(sb, &refs, h));
    for (i, ev) in &mres {
        // precondition: the first step (genuine set) is accepted
        if ev.results.first().map(|r| r != "ok").unwrap_or(false) {
            harness_error(&format!("{} rejected the genuine set as first step of a two-step history: {:?}", mh[*i].steps[0].loader, ev.results));
        }
        acc.add_history(Some(&mh[*i]), None, ev, &c16_class);
    }
    acc.samples.push(json!({"memo_history_in_one_process": mh.first().map(|h| &h.steps), "reported": mres.first().map(|(_, e)| e.results.clone())}));
    // enumerated: every single- and multi-field deviation from the sentinel as a VERIFYING template,
    // offered to the object constructors over a stand-in child circuit with free public inputs
    let mut sweeps: Vec<(String, usize, usize, Vec<Vec<(usize, u64)>>)> = vec![];
    {
        let mut srng = Rng::new(mix(seed, 0x16F0));
        let layers: Vec<(&str, usize, usize)> = if quick { vec![("leaf", 1, 1), ("pb", 1, 1), ("pb", 2, 2)] } else { vec![("leaf", 1, 1), ("leaf", 2, 1), ("pb", 1, 1), ("pb", 2, 2), ("pb", 3, 1)] };
        for (layer, n, m) in layers {
            let mut specs = c17::free_pi_specs(layer, n, &mut srng, if quick { 6 } else { 60 });
            if quick && layer == "pb" && n >= 2 {
                // quick keeps, for the larger shape, what the smaller one cannot show: deviations in the LAST
                // slots (alone, and with a lowered slot-count header)
                let last = 8 + 10 * n - 10;
                specs.retain(|sp| sp.is_empty() || (sp.iter().any(|(i, _)| *i >= last && *i < last + 10) && sp.iter().all(|(i, x)| *i != 0 || *x <= 1)));
            }
            for ch in specs.chunks(12) {
                sweeps.push((layer.to_string(), n, m, ch.to_vec()));
            }
        }
    }
    let sres = par_map(&sweeps, "c16f", 0, |sb, (layer, n, m, specs)| c17::run_free_pi_chunk(sb, layer, *n, *m, specs));
    let mut free_pi_templates = 0u64;
    for (i, ev) in &sres {
        free_pi_templates += sweeps[*i].3.len() as u64;
        acc.evals += sweeps[*i].3.len() as u64 - 1; // add_history counts one
        acc.add_history(None, None, ev, &c16_class);
        acc.nontrivial.insert(qpz_core::rng::hash_str(&format!("{:?}", sweeps[*i])));
    }
    acc.samples.push(json!({"free_public_input_sweep": sweeps.first().map(|s| (&s.0, s.1, s.2, &s.3[..s.3.len().min(4)]))}));
    let n_bh: u64 = if quick { 3 } else { 600 };
    let bseeds: Vec<u64> = (0..n_bh).map(|i| mix(seed, 0x16B0_0000 + i)).collect();
    let bres = par_map(&bseeds, "c16b", if quick { 0 } else { qpz_core::budget_s(900) / 4 }, |sb, s| {
        let mut r = Rng::new(*s);
        let h = c17::random_boot_history(&refs, &mut r);
        let ev = c17::run_boot_history(sb, &refs, &h);
        (h, ev)
    });
    for (_, (h, ev)) in &bres {
        acc.add_history(Some(h), None, ev, &c16_class);
    }
    acc.samples.push(json!({"template_fault_case": cases.iter().find(|c| matches!(c.faults.first(), Some(c17::SFault::EditPi { .. })))}));
    acc.samples.push(json!({"template_fault_case": cases.iter().find(|c| matches!(c.faults.first(), Some(c17::SFault::Special { .. })))}));
    let mut extra = serde_json::Map::new();
    extra.insert("entry_points".into(), json!(c17::LEAF_TEMPLATE_ENTRY_POINTS.iter().chain(c17::PB_TEMPLATE_ENTRY_POINTS.iter()).collect::<Vec<_>>()));
    extra.insert("faulted_templates_rejected".into(), json!(rejected));
    extra.insert("faulted_templates_accepted_while_satisfying_the_predicate".into(), json!(accepted_ok_predicate));
    extra.insert("cases_planned".into(), json!(cases.len()));
    extra.insert("verifying_templates_over_free_public_input_circuits".into(), json!(free_pi_templates));
    let complete = res.len() == cases.len() && !quick;
    finish_load_check("C16", tier, seed, t0, acc, &refs, "one evaluation = one entry point (constructor, loader, aggregator init or build stage; child process) given one faulted padding template; the template is judged by the harness's own predicate (deserialises, sentinel at the documented offsets, accepted by the canonical verifier) and any template failing it must be refused; distinct = distinct (shape, entry point, template fault); non-trivial = a template fault is present", complete, extra, &leaf_path, &pb_path)
}

fn main() {
    let args: Vec<String> = std::env::args().collect();
    if args.get(1).map(|s| s.as_str()) == Some("child") {
        child::child_main(&args[2]);
    }
    let mut property = String::new();
    let mut tier_arg = None;
    let mut replay = None;
    let mut i = 1;
    while i < args.len() {
        match args[i].as_str() {
            "--property" => { property = args[i + 1].clone(); i += 1; }
            "--tier" => { tier_arg = Some(args[i + 1].clone()); i += 1; }
            "--replay" => { replay = Some(args[i + 1].clone()); i += 1; }
            other => harness_error(&format!("unknown argument {other}")),
        }
        i += 1;
    }
    let seed = qpz_core::seed_from_env();
    let tier = Tier::from_env_or(tier_arg.as_deref());
    println!("VERIF_SEED={seed} property={property} tier={} sim=store", tier.as_str());
    seam_selftest();
    let rc = match property.as_str() {
        "C23" => check_c23(seed, tier, replay),
        "C17" => check_c17(seed, tier, replay),
        "C16" => check_c16(seed, tier, replay),
        other => harness_error(&format!("sim-store does not serve {other}")),
    };
    let _ = std::fs::remove_dir_all(sandbox::session_root());
    std::process::exit(rc);
}
