//! C23 — artifact publication is atomic under failures and crashes.
use crate::child::{args_of, ChildResult, ChildSpec};
use crate::fsseam::{Fault, FaultKind};
use crate::gens::Gen;
use crate::sandbox::{list, read_set, write_set, Sandbox};
use qpz_core::evidence::Counters;
use qpz_core::rng::Rng;
use serde::{Deserialize, Serialize};
use serde_json::json;
use std::collections::BTreeMap;
use std::path::Path;

pub const ERRNOS: &[(i32, &str)] = &[(5, "EIO"), (13, "EACCES"), (28, "ENOSPC"), (18, "EXDEV"), (39, "ENOTEMPTY"), (16, "EBUSY"), (30, "EROFS"), (24, "EMFILE"), (17, "EEXIST"), (2, "ENOENT"), (4, "EINTR")];
pub const PAIR_ERRNOS: &[i32] = &[5, 17, 2];

#[derive(Clone, Copy, Debug, Serialize, Deserialize, PartialEq, Eq, Hash)]
#[serde(rename_all = "snake_case")]
pub enum Init {
    NoOutput,
    Dir,
    File,
    DirDebris,
    EmptyDir,
}
pub const INITS: &[Init] = &[Init::NoOutput, Init::Dir, Init::File, Init::DirDebris, Init::EmptyDir];

/// One builder run over whatever is on disk.
#[derive(Clone, Debug, Serialize, Deserialize)]
pub struct PublishRun {
    /// index of the generation being published
    pub new_gen: usize,
    pub plan: Vec<Fault>,
    /// "commit" (publish routine on a pre-staged set) or "generate" (full pipeline)
    pub action: String,
}

#[derive(Clone, Debug, Serialize, Deserialize)]
pub struct Scenario {
    pub init: Init,
    pub prev_gen: usize,
    pub runs: Vec<PublishRun>,
    /// finish with one fault-free publish of this generation (I-progress)
    #[serde(default)]
    pub final_gen: Option<usize>,
}

#[derive(Clone, Debug, Default)]
pub struct Eval {
    pub findings: Vec<(String, String)>,
    pub probes: Counters,
    pub faults_fired: Counters,
    pub states: Vec<u64>,
    pub results: Vec<String>,
    /// traces of each run (for adaptive enumeration)
    pub traces: Vec<Vec<crate::fsseam::TraceEntry>>,
    pub harness_error: Option<String>,
}

#[derive(Clone, Debug, PartialEq)]
enum Prev {
    Absent,
    File(u64),
    Set(BTreeMap<String, u64>),
}

const TEMPLATES: &[&str] = &["dummy_proof.bin", "dummy_private_batch_proof.bin"];

/// `set` is a complete artifact set of `gen`'s shape: same names, and equal
/// bytes on every deterministic file (the two template files carry fresh
/// randomness in every generation).
fn matches_shape(set: &BTreeMap<String, u64>, gen: &Gen) -> bool {
    set.len() == gen.hashes.len() && gen.hashes.iter().all(|(n, h)| set.get(n).map(|x| TEMPLATES.contains(&n.as_str()) || x == h).unwrap_or(false))
}

fn out_state(output: &Path) -> Prev {
    match std::fs::symlink_metadata(output) {
        Err(_) => Prev::Absent,
        Ok(md) if md.is_dir() => Prev::Set(read_set(output).unwrap_or_default()),
        Ok(_) => Prev::File(qpz_core::rng::hash_bytes(&std::fs::read(output).unwrap_or_default())),
    }
}

fn classify_dir(set: &BTreeMap<String, u64>, gens: &[Gen]) -> String {
    for g in gens {
        if *set == g.hashes {
            return format!("={}", g.name);
        }
        if matches_shape(set, g) {
            return format!("~{}", g.name);
        }
    }
    for g in gens {
        if !set.is_empty() && set.iter().all(|(n, h)| g.hashes.get(n) == Some(h)) {
            return format!("partial-{}", g.name);
        }
    }
    if set.is_empty() {
        "empty".into()
    } else {
        "other".into()
    }
}

fn op_probe(t: &crate::fsseam::TraceEntry, kind: &str) -> String {
    let role = match t.op.as_str() {
        "rename" => {
            if t.path == "work/bins" {
                "rename_move_aside"
            } else if t.path2 == "work/bins" && t.path.ends_with(".old") {
                "rename_rollback"
            } else if t.path2 == "work/bins" {
                "rename_swap_in"
            } else {
                "rename_other"
            }
        }
        "unlink" | "rmdir" | "opendir" => {
            if t.path.contains(".old") {
                "delete_old_copy"
            } else if t.path.contains(".staging-") {
                "delete_staging"
            } else {
                "delete_other"
            }
        }
        "stat" => {
            if t.path == "work/bins" {
                "stat_output"
            } else {
                "stat_other"
            }
        }
        o => o,
    };
    format!("{kind}@{role}")
}

/// `.bins.staging-<pid>-<random>` -> `.bins.staging-*` (also inside error texts)
pub fn norm_name(s: &str) -> String {
    let mut out = String::new();
    let mut rest = s;
    while let Some(i) = rest.find(".staging-") {
        out.push_str(&rest[..i + 9]);
        out.push('*');
        let tail = &rest[i + 9..];
        let end = tail.find(|c: char| !(c.is_ascii_hexdigit() || c == '-')).unwrap_or(tail.len());
        rest = &tail[end..];
    }
    out.push_str(rest);
    out
}

/// Error text made replay-stable: staging names and the per-process sandbox path are masked.
pub fn norm_err(s: &str) -> String {
    let mut t = norm_name(s);
    while let Some(i) = t.find("/dev/shm/qpz-verif-") {
        let tail = &t[i..];
        let end = tail.find("/fs/").map(|e| e + 3).unwrap_or(tail.len());
        t = format!("{}<sandbox>{}", &t[..i], &tail[end..]);
    }
    t
}

pub fn errno_name(e: i32) -> String {
    ERRNOS.iter().find(|(n, _)| *n == e).map(|(_, s)| s.to_string()).unwrap_or_else(|| format!("E{e}"))
}

pub fn run_scenario(sb: &mut Sandbox, gens: &[Gen], sc: &Scenario) -> Eval {
    let mut ev = Eval::default();
    let fs = sb.reset();
    let work = fs.join("work");
    std::fs::create_dir_all(&work).unwrap();
    let output = work.join("bins");
    let prev = &gens[sc.prev_gen];
    match sc.init {
        Init::NoOutput => {}
        Init::Dir => write_set(&output, &prev.files),
        Init::EmptyDir => std::fs::create_dir_all(&output).unwrap(),
        Init::File => std::fs::write(&output, b"not a directory").unwrap(),
        Init::DirDebris => {
            write_set(&output, &prev.files);
            // debris of earlier crashed runs: a complete stale staging dir and a half-deleted old copy
            let other = &gens[(sc.prev_gen + 1) % gens.len()];
            write_set(&work.join(".bins.staging-1-00000000000000aa"), &other.files);
            let mut half = other.files.clone();
            let names: Vec<String> = half.keys().cloned().collect();
            for n in names.iter().take(names.len() / 2) {
                half.remove(n);
            }
            write_set(&work.join(".bins.staging-2-00000000000000bb.old"), &half);
        }
    }
    // I-lastcopy (multi-run histories of exact publishes): the set that was last live at the output path
    // is never destroyed while no complete set is live there - whatever an earlier failed run left as the
    // only surviving copy, a later run must not sweep away
    let exact_history = sc.runs.len() > 1 && sc.runs.iter().all(|r| r.action != "generate");
    let is_generation = |s: &BTreeMap<String, u64>| gens.iter().any(|g| g.hashes == *s);
    let mut last_live: Option<BTreeMap<String, u64>> = match out_state(&output) {
        Prev::Set(s) if is_generation(&s) => Some(s),
        _ => None,
    };
    let mut all_runs: Vec<PublishRun> = sc.runs.clone();
    if let Some(g) = sc.final_gen {
        all_runs.push(PublishRun { new_gen: g, plan: vec![], action: "commit".into() });
    }
    let n_runs = all_runs.len();
    for (ri, run) in all_runs.iter().enumerate() {
        let is_final = sc.final_gen.is_some() && ri == n_runs - 1;
        let new = &gens[run.new_gen];
        let prev_state = out_state(&output);
        // publishing the very generation that is already live cannot be judged (PREV = NEW): skip
        if matches!(&prev_state, Prev::Set(s) if *s == new.hashes || (run.action == "generate" && matches_shape(s, new))) {
            ev.probes.inc("run_skipped_same_generation_already_live");
            ev.results.push("skipped".into());
            ev.traces.push(vec![]);
            continue;
        }
        let before: Vec<String> = list(&work);
        let staging = work.join(format!(".bins.staging-4242-{:016x}", 0xdead_0000u64 + ri as u64));
        let spec = if run.action == "generate" {
            ChildSpec {
                action: "generate".into(),
                args: args_of(&[("output", json!(output.to_string_lossy())), ("include_prover", json!(true)), ("n", json!(new.n)), ("m", json!(new.m))]),
                plan: run.plan.clone(),
                ..Default::default()
            }
        } else if run.action == "stage_and_commit" {
            // the set to publish waits outside the output's parent directory
            let source = fs.join(format!("src-{ri}"));
            write_set(&source, &new.files);
            ChildSpec {
                action: "stage_and_commit".into(),
                args: args_of(&[("source", json!(source.to_string_lossy())), ("output", json!(output.to_string_lossy()))]),
                plan: run.plan.clone(),
                ..Default::default()
            }
        } else {
            write_set(&staging, &new.files);
            ChildSpec {
                action: "commit".into(),
                args: args_of(&[("staging", json!(staging.to_string_lossy())), ("output", json!(output.to_string_lossy()))]),
                plan: run.plan.clone(),
                ..Default::default()
            }
        };
        let cr = sb.run_child(spec);
        let kind = cr.kind().to_string();
        ev.results.push(kind.clone());
        let res: ChildResult = cr.result.clone().unwrap_or_default();
        // fired faults and where they landed
        for t in &res.trace {
            if let Some(inj) = &t.injected {
                let k = if inj == "crash" { "crash".to_string() } else if let Some(e) = inj.strip_prefix("errno:") { errno_name(e.parse().unwrap_or(0)) } else { inj.clone() };
                ev.faults_fired.inc(&k);
                ev.probes.inc(&op_probe(t, if inj == "crash" { "crash" } else { "fail" }));
            }
        }
        if kind == "died" {
            ev.harness_error = Some(format!("child died without report (exit {:?}, signal {:?})", cr.exit_code, cr.signal));
            return ev;
        }
        ev.traces.push(res.trace.clone());

        // ---- oracles on the real tree ----
        let now_state = out_state(&output);
        let exact = run.action != "generate";
        let is_new = match &now_state {
            Prev::Set(s) => {
                if exact {
                    *s == new.hashes
                } else {
                    matches_shape(s, new) && Prev::Set(s.clone()) != prev_state
                }
            }
            _ => false,
        };
        let is_prev = now_state == prev_state;
        let absent = now_state == Prev::Absent;
        let tag = format!("run {ri} ({} {} over {:?}, plan {:?}, reported {kind})", run.action, new.name, sc.init, run.plan);
        if !(is_prev || is_new || absent) {
            let cls = match &now_state {
                Prev::Set(s) => classify_dir(s, gens),
                Prev::File(_) => "file".into(),
                Prev::Absent => "absent".into(),
            };
            ev.findings.push(("publish:mixed-output".into(), format!("{tag}: output path holds neither the previous nor the new set (it is '{cls}')")));
        }
        // new sibling entries created by this run (+ the staging dir the parent prepared)
        let after = list(&work);
        let fresh: Vec<&String> = after.iter().filter(|n| n.as_str() != "bins" && (!before.contains(n) || work.join(n.as_str()) == staging)).collect();
        let fresh_sets: Vec<(String, BTreeMap<String, u64>)> = fresh.iter().filter_map(|n| read_set(&work.join(n.as_str())).map(|s| ((*n).clone(), s))).collect();
        if !is_prev && !is_new {
            let prev_survives = match &prev_state {
                Prev::Absent => true,
                Prev::Set(p) if p.is_empty() => true,
                Prev::Set(p) => fresh_sets.iter().any(|(_, s)| s == p),
                Prev::File(h) => fresh.iter().any(|n| matches!(out_state(&work.join(n.as_str())), Prev::File(x) if x == *h)),
            };
            let new_survives = fresh_sets.iter().any(|(_, s)| if exact { *s == new.hashes } else { matches_shape(s, new) });
            if !(prev_survives && new_survives) {
                ev.findings.push(("publish:lost-copy".into(), format!("{tag}: the previous set is no longer at the output path, the new set is not there either, and previous/new copies surviving elsewhere = {prev_survives}/{new_survives}")));
            } else {
                ev.probes.inc("output_absent_both_copies_survive");
            }
        }
        if exact_history {
            match &now_state {
                Prev::Set(s) if is_generation(s) => last_live = Some(s.clone()),
                _ => {
                    if let Some(ll) = &last_live {
                        let survives = after.iter().filter(|n| n.as_str() != "bins").any(|n| read_set(&work.join(n.as_str())).map(|s| s == *ll).unwrap_or(false));
                        if !survives {
                            ev.findings.push(("publish:last-live-set-destroyed".into(), format!("{tag}: no complete set is live at the output path and the set that was last live there no longer exists anywhere next to it")));
                        }
                    }
                }
            }
        }
        match kind.as_str() {
            "ok" if !is_new => ev.findings.push(("publish:ok-but-not-live".into(), format!("{tag}: success reported but the new set is not live"))),
            "err" if is_new => ev.findings.push(("publish:err-but-live".into(), format!("{tag}: failure reported but the new set is live ({})", norm_err(&res.error)))),
            _ => {}
        }
        if kind == "panic" {
            ev.probes.inc("publisher_panicked");
        }
        // failed generation (error before the publish phase began): output untouched, no staging left behind
        if run.action == "generate" && kind == "err" {
            // narrow relaxation: not required when an injected fault hit the cleanup itself
            let first_fault = res.trace.iter().position(|t| t.injected.is_some());
            // the generation phase ends when config.json (written last) is complete; an error
            // after that comes from the publish routine, which manages its own cleanup
            let cfg_done = res.trace.iter().rposition(|t| t.op == "write" && t.path.ends_with("config.json") && t.ret > 0 && t.injected.is_none());
            let reached_publish = res.trace.iter().any(|t| t.op == "rename") || matches!((cfg_done, first_fault), (Some(c), Some(f)) if f > c);
            let cleanup_faulted = res.trace.iter().enumerate().any(|(i, t)| t.injected.is_some() && Some(i) != first_fault && (t.op == "unlink" || t.op == "rmdir" || t.op == "opendir"));
            if !reached_publish {
                if !is_prev {
                    ev.findings.push(("publish:failed-generation-touched-output".into(), format!("{tag}: generation failed before publishing, yet the output changed")));
                }
                // name-independent: any sibling entry this run created and left next to the output
                // (whatever the staging directory is called) is a staging leftover
                let left: Vec<&&String> = fresh.iter().filter(|n| work.join(n.as_str()) != staging).collect();
                if !left.is_empty() && !cleanup_faulted {
                    // names carry the pid and a random suffix: keep them out of the (replayable) finding text
                    let left_n: Vec<String> = left.iter().map(|n| norm_name(n)).collect();
                    ev.findings.push(("publish:staging-left-behind".into(), format!("{tag}: generation failed ({}) and left {:?} behind", norm_err(&res.error), left_n)));
                }
                ev.probes.inc("generation_failed_before_publish");
            }
        }
        // (a regular file at the output path is refused by design: not a progress failure)
        if is_final && !(kind == "ok" && is_new) && !matches!(prev_state, Prev::File(_)) {
            ev.findings.push(("publish:no-progress-after-faults".into(), format!("{tag}: a fault-free publish after the last fault did not succeed ({})", norm_err(&res.error))));
        }
        // abstract state
        let mut st = vec![match &now_state {
            Prev::Absent => "absent".to_string(),
            Prev::File(_) => "file".to_string(),
            Prev::Set(s) => classify_dir(s, gens),
        }];
        let mut sib: Vec<String> = after.iter().filter(|n| n.as_str() != "bins").map(|n| match read_set(&work.join(n)) {
            Some(s) => format!("{}:{}", if n.ends_with(".old") { "old" } else { "staging" }, classify_dir(&s, gens)),
            None => "file".into(),
        }).collect();
        sib.sort();
        st.extend(sib);
        ev.states.push(qpz_core::rng::hash_str(&st.join("|")));
        ev.probes.inc(&format!("result_{kind}"));
        if !ev.findings.is_empty() {
            break;
        }
        // remove the parent-made staging dir if the run left it (so histories do not trip over our own names)
        let _ = ri;
    }
    ev
}

pub fn all_single_kinds() -> Vec<FaultKind> {
    let mut v = vec![FaultKind::Crash, FaultKind::ShortWrite];
    v.extend(ERRNOS.iter().map(|(e, _)| FaultKind::Errno { errno: *e }));
    v
}

pub fn pair_second_kinds() -> Vec<FaultKind> {
    let mut v = vec![FaultKind::Crash];
    v.extend(PAIR_ERRNOS.iter().map(|e| FaultKind::Errno { errno: *e }));
    v
}

/// Seeded history: 2-8 builder runs over one output path, each with a random
/// fault plan (or none), then one fault-free publish.
pub fn random_history(gens: &[Gen], rng: &mut Rng, typical_calls: u64) -> Scenario {
    let init = *rng.pick(INITS);
    let prev_gen = rng.usize(gens.len());
    let n = rng.range(2, 8) as usize;
    let mut runs = vec![];
    let mut last = prev_gen;
    for _ in 0..n {
        let mut g = rng.usize(gens.len());
        if g == last {
            g = (g + 1) % gens.len();
        }
        last = g;
        let mut plan = vec![];
        let nf = *rng.pick(&[0usize, 1, 1, 1, 2, 2, 3]);
        for _ in 0..nf {
            let call = rng.below(typical_calls + 2);
            let kinds = all_single_kinds();
            // crashes are aimed a bit more often: they are what leaves debris
            let kind = if rng.chance(1, 3) { FaultKind::Crash } else { rng.pick(&kinds).clone() };
            if !plan.iter().any(|f: &Fault| f.call == call) {
                plan.push(Fault { call, kind });
            }
        }
        plan.sort_by_key(|f| f.call);
        // half of the runs publish a pre-staged set, half go through the builder's own staging-directory
        // creation first (the routine that meets the debris of earlier runs)
        let action = if rng.chance(1, 2) { "commit" } else { "stage_and_commit" };
        runs.push(PublishRun { new_gen: g, plan, action: action.into() });
    }
    let mut fg = rng.usize(gens.len());
    if fg == last {
        fg = (fg + 1) % gens.len();
    }
    Scenario { init, prev_gen, runs, final_gen: Some(fg) }
}
