//! Filesystem seam: the libc entry points `std::fs` uses are defined in this
//! executable. A call whose path (or file descriptor) lies under the sandbox
//! root is an event: it is counted, traced and may be failed, shortened or
//! turned into process death by the fault plan. Everything else is forwarded
//! to the kernel untouched with a raw syscall.
use libc::{c_char, c_int, c_long, c_uint, c_void, mode_t, off_t, size_t, ssize_t};
use serde::{Deserialize, Serialize};
use std::cell::Cell;
use std::collections::HashMap;
use std::ffi::CStr;
use std::sync::atomic::{AtomicBool, Ordering};
use std::sync::Mutex;

#[derive(Clone, Debug, Serialize, Deserialize, PartialEq, Eq, Hash)]
#[serde(tag = "kind", rename_all = "snake_case")]
pub enum FaultKind {
    /// the process dies inside the call, before it takes effect
    Crash,
    /// the call does not happen and fails with this errno
    Errno { errno: i32 },
    /// a write stores only half of its buffer; the next write on that file fails with ENOSPC
    ShortWrite,
    /// a read returns at most half of what was asked for
    ShortRead,
}

#[derive(Clone, Debug, Serialize, Deserialize, PartialEq, Eq, Hash)]
pub struct Fault {
    /// index of the sandbox call (0-based, in the order the process makes them)
    pub call: u64,
    #[serde(flatten)]
    pub kind: FaultKind,
}

#[derive(Clone, Debug, Serialize, Deserialize)]
pub struct TraceEntry {
    pub i: u64,
    pub op: String,
    pub path: String,
    #[serde(default, skip_serializing_if = "String::is_empty")]
    pub path2: String,
    pub ret: i64,
    #[serde(default, skip_serializing_if = "Option::is_none")]
    pub injected: Option<String>,
}

#[derive(Default)]
struct FdInfo {
    path: String,
    read: u64,
    written: u64,
    enospc_next: bool,
}

struct Seam {
    root: Vec<u8>,
    calls: u64,
    plan: Vec<Fault>,
    trace: Vec<TraceEntry>,
    fds: HashMap<c_int, FdInfo>,
    read_bytes: HashMap<String, u64>,
    opened: Vec<String>,
    out_path: Option<String>,
    crash_hook: Option<Box<dyn Fn(&[TraceEntry], u64) + Send>>,
}

static ENABLED: AtomicBool = AtomicBool::new(false);
static SEAM: Mutex<Option<Seam>> = Mutex::new(None);
thread_local! { static IN_SEAM: Cell<bool> = const { Cell::new(false) }; }

pub struct Report {
    pub calls: u64,
    pub trace: Vec<TraceEntry>,
    pub read_bytes: HashMap<String, u64>,
    pub opened: Vec<String>,
}

/// Start intercepting calls under `root`.
pub fn install(root: &str, plan: Vec<Fault>, crash_hook: Option<Box<dyn Fn(&[TraceEntry], u64) + Send>>) {
    let mut g = SEAM.lock().unwrap();
    *g = Some(Seam {
        root: root.as_bytes().to_vec(),
        calls: 0,
        plan,
        trace: vec![],
        fds: HashMap::new(),
        read_bytes: HashMap::new(),
        opened: vec![],
        out_path: None,
        crash_hook,
    });
    ENABLED.store(true, Ordering::SeqCst);
}

pub fn uninstall() -> Report {
    ENABLED.store(false, Ordering::SeqCst);
    let mut s = SEAM.lock().unwrap().take().expect("seam not installed");
    let _ = &s.out_path;
    // files still open: account their reads too
    let root = String::from_utf8_lossy(&s.root).into_owned();
    for (_, info) in s.fds.drain() {
        let rel = info.path.strip_prefix(&root).map(|x| x.trim_start_matches('/').to_string()).unwrap_or(info.path.clone());
        *s.read_bytes.entry(rel).or_insert(0) += info.read;
    }
    Report { calls: s.calls, trace: s.trace, read_bytes: s.read_bytes, opened: s.opened }
}

unsafe fn set_errno(e: c_int) {
    *libc::__errno_location() = e;
}
unsafe fn get_errno() -> c_int {
    *libc::__errno_location()
}

enum Decision {
    Pass,
    Fail(c_int),
    Short,
}

/// Common entry: returns `None` when the call is not a sandbox call (or the
/// seam is off / re-entered), otherwise the call index and what to do.
fn enter(op: &str, path: &str, path2: &str) -> Option<(u64, Decision)> {
    let mut g = SEAM.lock().ok()?;
    let s = g.as_mut()?;
    let i = s.calls;
    s.calls += 1;
    let fault = s.plan.iter().find(|f| f.call == i).cloned();
    let rel = |p: &str| -> String {
        let r = std::str::from_utf8(&s.root).unwrap_or("");
        p.strip_prefix(r).map(|x| x.trim_start_matches('/').to_string()).unwrap_or_else(|| p.to_string())
    };
    let mut e = TraceEntry { i, op: op.to_string(), path: rel(path), path2: if path2.is_empty() { String::new() } else { rel(path2) }, ret: 0, injected: None };
    let d = match fault.map(|f| f.kind) {
        None => Decision::Pass,
        Some(FaultKind::Crash) => {
            e.injected = Some("crash".into());
            s.trace.push(e);
            if let Some(h) = &s.crash_hook {
                h(&s.trace, s.calls);
            }
            unsafe {
                libc::syscall(libc::SYS_exit_group, 77 as c_long);
            }
            unreachable!()
        }
        Some(FaultKind::Errno { errno }) => {
            e.injected = Some(format!("errno:{errno}"));
            e.ret = -(errno as i64);
            Decision::Fail(errno)
        }
        Some(FaultKind::ShortRead) => {
            if op == "read" {
                e.injected = Some("short_read".into());
                Decision::Short
            } else {
                Decision::Pass
            }
        }
        Some(FaultKind::ShortWrite) => {
            if op == "write" {
                e.injected = Some("short_write".into());
                Decision::Short
            } else {
                // not a write: degrade to ENOSPC
                e.injected = Some("errno:28".into());
                e.ret = -28;
                Decision::Fail(libc::ENOSPC)
            }
        }
    };
    s.trace.push(e);
    Some((i, d))
}

fn finish(i: u64, ret: i64) {
    if let Ok(mut g) = SEAM.lock() {
        if let Some(s) = g.as_mut() {
            if let Some(e) = s.trace.iter_mut().rev().find(|e| e.i == i) {
                if e.injected.is_none() || ret >= 0 {
                    e.ret = ret;
                }
            }
        }
    }
}

fn in_root(path: &[u8]) -> bool {
    if !ENABLED.load(Ordering::Relaxed) {
        return false;
    }
    if IN_SEAM.try_with(|c| c.get()).unwrap_or(true) {
        return false;
    }
    match SEAM.try_lock() {
        Ok(g) => g.as_ref().map(|s| path.starts_with(&s.root)).unwrap_or(false),
        Err(_) => false,
    }
}

fn fd_path(fd: c_int) -> Option<String> {
    if !ENABLED.load(Ordering::Relaxed) || IN_SEAM.try_with(|c| c.get()).unwrap_or(true) {
        return None;
    }
    let g = SEAM.try_lock().ok()?;
    g.as_ref()?.fds.get(&fd).map(|f| f.path.clone())
}

unsafe fn cpath<'a>(p: *const c_char) -> &'a [u8] {
    if p.is_null() {
        &[]
    } else {
        CStr::from_ptr(p).to_bytes()
    }
}

/// Resolve (dirfd, path) to an absolute sandbox path, if it is one.
unsafe fn resolve(dirfd: c_int, p: *const c_char) -> Option<String> {
    let b = cpath(p);
    if b.first() == Some(&b'/') {
        if in_root(b) {
            return Some(String::from_utf8_lossy(b).into_owned());
        }
        return None;
    }
    if dirfd == libc::AT_FDCWD {
        return None;
    }
    let base = fd_path(dirfd)?;
    if b.is_empty() {
        return Some(base);
    }
    Some(format!("{}/{}", base, String::from_utf8_lossy(b)))
}

struct Guard;
impl Guard {
    fn new() -> Guard {
        let _ = IN_SEAM.try_with(|c| c.set(true));
        Guard
    }
}
impl Drop for Guard {
    fn drop(&mut self) {
        let _ = IN_SEAM.try_with(|c| c.set(false));
    }
}

macro_rules! path_op {
    ($op:expr, $p1:expr, $p2:expr, $real:expr) => {{
        match enter($op, &$p1, &$p2) {
            None => $real,
            Some((i, Decision::Fail(e))) => {
                let _ = i;
                set_errno(e);
                -1
            }
            Some((i, _)) => {
                let r = $real;
                let err = get_errno();
                finish(i, if r < 0 { -(err as i64) } else { r as i64 });
                set_errno(err);
                r
            }
        }
    }};
}

#[no_mangle]
pub unsafe extern "C" fn rename(old: *const c_char, new: *const c_char) -> c_int {
    let real = || libc::syscall(libc::SYS_rename, old, new) as c_int;
    let (a, b) = (resolve(libc::AT_FDCWD, old), resolve(libc::AT_FDCWD, new));
    if a.is_none() && b.is_none() {
        return real();
    }
    let _g = Guard::new();
    let (a, b) = (a.unwrap_or_else(|| String::from_utf8_lossy(cpath(old)).into_owned()), b.unwrap_or_else(|| String::from_utf8_lossy(cpath(new)).into_owned()));
    path_op!("rename", a, b, real())
}

#[no_mangle]
pub unsafe extern "C" fn renameat(ofd: c_int, old: *const c_char, nfd: c_int, new: *const c_char) -> c_int {
    renameat2(ofd, old, nfd, new, 0)
}

#[no_mangle]
pub unsafe extern "C" fn renameat2(ofd: c_int, old: *const c_char, nfd: c_int, new: *const c_char, flags: c_uint) -> c_int {
    let real = || libc::syscall(libc::SYS_renameat2, ofd, old, nfd, new, flags) as c_int;
    let (a, b) = (resolve(ofd, old), resolve(nfd, new));
    if a.is_none() && b.is_none() {
        return real();
    }
    let _g = Guard::new();
    let (a, b) = (a.unwrap_or_default(), b.unwrap_or_default());
    path_op!("rename", a, b, real())
}

#[no_mangle]
pub unsafe extern "C" fn mkdir(p: *const c_char, mode: mode_t) -> c_int {
    let real = || libc::syscall(libc::SYS_mkdir, p, mode as c_long) as c_int;
    let Some(a) = resolve(libc::AT_FDCWD, p) else { return real() };
    let _g = Guard::new();
    path_op!("mkdir", a, String::new(), real())
}

#[no_mangle]
pub unsafe extern "C" fn mkdirat(fd: c_int, p: *const c_char, mode: mode_t) -> c_int {
    let real = || libc::syscall(libc::SYS_mkdirat, fd, p, mode as c_long) as c_int;
    let Some(a) = resolve(fd, p) else { return real() };
    let _g = Guard::new();
    path_op!("mkdir", a, String::new(), real())
}

#[no_mangle]
pub unsafe extern "C" fn rmdir(p: *const c_char) -> c_int {
    let real = || libc::syscall(libc::SYS_rmdir, p) as c_int;
    let Some(a) = resolve(libc::AT_FDCWD, p) else { return real() };
    let _g = Guard::new();
    path_op!("rmdir", a, String::new(), real())
}

#[no_mangle]
pub unsafe extern "C" fn unlink(p: *const c_char) -> c_int {
    let real = || libc::syscall(libc::SYS_unlink, p) as c_int;
    let Some(a) = resolve(libc::AT_FDCWD, p) else { return real() };
    let _g = Guard::new();
    path_op!("unlink", a, String::new(), real())
}

#[no_mangle]
pub unsafe extern "C" fn unlinkat(fd: c_int, p: *const c_char, flags: c_int) -> c_int {
    let real = || libc::syscall(libc::SYS_unlinkat, fd, p, flags) as c_int;
    let Some(a) = resolve(fd, p) else { return real() };
    let _g = Guard::new();
    let op = if flags & libc::AT_REMOVEDIR != 0 { "rmdir" } else { "unlink" };
    path_op!(op, a, String::new(), real())
}

unsafe fn do_open(dirfd: c_int, p: *const c_char, flags: c_int, mode: mode_t) -> c_int {
    let real = || libc::syscall(libc::SYS_openat, dirfd, p, flags, mode as c_long) as c_int;
    let Some(a) = resolve(dirfd, p) else { return real() };
    let _g = Guard::new();
    let acc = flags & libc::O_ACCMODE;
    let op = if flags & libc::O_DIRECTORY != 0 {
        "opendir"
    } else if acc == libc::O_RDONLY {
        "open_read"
    } else {
        "open_write"
    };
    let fd = path_op!(op, a, String::new(), real());
    if fd >= 0 {
        if let Ok(mut g) = SEAM.lock() {
            if let Some(s) = g.as_mut() {
                let rel = a.strip_prefix(std::str::from_utf8(&s.root).unwrap_or("")).map(|x| x.trim_start_matches('/').to_string()).unwrap_or(a.clone());
                if op == "open_read" {
                    s.opened.push(rel);
                }
                s.fds.insert(fd, FdInfo { path: a, ..Default::default() });
            }
        }
    }
    fd
}

#[no_mangle]
pub unsafe extern "C" fn open(p: *const c_char, flags: c_int, mode: mode_t) -> c_int {
    do_open(libc::AT_FDCWD, p, flags, mode)
}
#[no_mangle]
pub unsafe extern "C" fn open64(p: *const c_char, flags: c_int, mode: mode_t) -> c_int {
    do_open(libc::AT_FDCWD, p, flags, mode)
}
#[no_mangle]
pub unsafe extern "C" fn openat(fd: c_int, p: *const c_char, flags: c_int, mode: mode_t) -> c_int {
    do_open(fd, p, flags, mode)
}
#[no_mangle]
pub unsafe extern "C" fn openat64(fd: c_int, p: *const c_char, flags: c_int, mode: mode_t) -> c_int {
    do_open(fd, p, flags, mode)
}
#[no_mangle]
pub unsafe extern "C" fn creat(p: *const c_char, mode: mode_t) -> c_int {
    do_open(libc::AT_FDCWD, p, libc::O_CREAT | libc::O_WRONLY | libc::O_TRUNC, mode)
}

#[no_mangle]
pub unsafe extern "C" fn close(fd: c_int) -> c_int {
    if ENABLED.load(Ordering::Relaxed) && !IN_SEAM.try_with(|c| c.get()).unwrap_or(true) {
        if let Ok(mut g) = SEAM.try_lock() {
            if let Some(s) = g.as_mut() {
                if let Some(info) = s.fds.remove(&fd) {
                    if info.read > 0 || !s.read_bytes.contains_key(&info.path) {
                        let rel = info.path.strip_prefix(std::str::from_utf8(&s.root).unwrap_or("")).map(|x| x.trim_start_matches('/').to_string()).unwrap_or(info.path.clone());
                        *s.read_bytes.entry(rel).or_insert(0) += info.read;
                    }
                    let _ = info.written;
                }
            }
        }
    }
    libc::syscall(libc::SYS_close, fd) as c_int
}

#[no_mangle]
pub unsafe extern "C" fn read(fd: c_int, buf: *mut c_void, n: size_t) -> ssize_t {
    let real = || libc::syscall(libc::SYS_read, fd, buf, n) as ssize_t;
    let Some(a) = fd_path(fd) else { return real() };
    let _g = Guard::new();
    let r = match enter("read", &a, "") {
        None => real(),
        Some((_, Decision::Fail(e))) => {
            set_errno(e);
            -1
        }
        Some((i, d)) => {
            let len = if matches!(d, Decision::Short) { (n / 2).max(1).min(n) } else { n };
            let r = libc::syscall(libc::SYS_read, fd, buf, len) as ssize_t;
            let err = get_errno();
            finish(i, if r < 0 { -(err as i64) } else { r as i64 });
            set_errno(err);
            r
        }
    };
    if r > 0 {
        if let Ok(mut g) = SEAM.lock() {
            if let Some(f) = g.as_mut().and_then(|s| s.fds.get_mut(&fd)) {
                f.read += r as u64;
            }
        }
    }
    r
}

#[no_mangle]
pub unsafe extern "C" fn pread64(fd: c_int, buf: *mut c_void, n: size_t, off: off_t) -> ssize_t {
    let real = || libc::syscall(libc::SYS_pread64, fd, buf, n, off) as ssize_t;
    let Some(a) = fd_path(fd) else { return real() };
    let _g = Guard::new();
    let r = path_op!("read", a, String::new(), real());
    if r > 0 {
        if let Ok(mut g) = SEAM.lock() {
            if let Some(f) = g.as_mut().and_then(|s| s.fds.get_mut(&fd)) {
                f.read += r as u64;
            }
        }
    }
    r
}

#[no_mangle]
pub unsafe extern "C" fn write(fd: c_int, buf: *const c_void, n: size_t) -> ssize_t {
    let real = |len: size_t| libc::syscall(libc::SYS_write, fd, buf, len) as ssize_t;
    let Some(a) = fd_path(fd) else { return real(n) };
    let _g = Guard::new();
    // a file marked by an earlier short write is out of space
    let enospc = SEAM.lock().ok().and_then(|g| g.as_ref().and_then(|s| s.fds.get(&fd).map(|f| f.enospc_next))).unwrap_or(false);
    match enter("write", &a, "") {
        None => real(n),
        Some((_, Decision::Fail(e))) => {
            set_errno(e);
            -1
        }
        Some((i, d)) => {
            if enospc {
                finish(i, -(libc::ENOSPC as i64));
                set_errno(libc::ENOSPC);
                return -1;
            }
            let len = if matches!(d, Decision::Short) { (n / 2).max(1).min(n) } else { n };
            let r = real(len);
            let err = get_errno();
            finish(i, if r < 0 { -(err as i64) } else { r as i64 });
            if let Ok(mut g) = SEAM.lock() {
                if let Some(f) = g.as_mut().and_then(|s| s.fds.get_mut(&fd)) {
                    if r > 0 {
                        f.written += r as u64;
                    }
                    if matches!(d, Decision::Short) {
                        f.enospc_next = true;
                    }
                }
            }
            set_errno(err);
            r
        }
    }
}

#[no_mangle]
pub unsafe extern "C" fn statx(dirfd: c_int, p: *const c_char, flags: c_int, mask: c_uint, buf: *mut libc::statx) -> c_int {
    let real = || libc::syscall(libc::SYS_statx, dirfd, p, flags, mask, buf) as c_int;
    let Some(a) = resolve(dirfd, p) else { return real() };
    let _g = Guard::new();
    path_op!("stat", a, String::new(), real())
}

#[no_mangle]
pub unsafe extern "C" fn fsync(fd: c_int) -> c_int {
    let real = || libc::syscall(libc::SYS_fsync, fd) as c_int;
    let Some(a) = fd_path(fd) else { return real() };
    let _g = Guard::new();
    path_op!("fsync", a, String::new(), real())
}

#[no_mangle]
pub unsafe extern "C" fn fdatasync(fd: c_int) -> c_int {
    let real = || libc::syscall(libc::SYS_fdatasync, fd) as c_int;
    let Some(a) = fd_path(fd) else { return real() };
    let _g = Guard::new();
    path_op!("fsync", a, String::new(), real())
}

#[no_mangle]
pub unsafe extern "C" fn ftruncate(fd: c_int, len: off_t) -> c_int {
    let real = || libc::syscall(libc::SYS_ftruncate, fd, len) as c_int;
    let Some(a) = fd_path(fd) else { return real() };
    let _g = Guard::new();
    path_op!("ftruncate", a, String::new(), real())
}
#[no_mangle]
pub unsafe extern "C" fn ftruncate64(fd: c_int, len: off_t) -> c_int {
    ftruncate(fd, len)
}
