//! SIM-C: randomness seam for batch commitment (C15, DESIGN.md section 7).
use plonky2::field::types::PrimeField64;
use plonky2::iop::witness::Witness;
use plonky2::plonk::proof::{ProofWithPublicInputs, ProofWithPublicInputsTarget};
use qpz_core::evidence::{Counters, Evidence};
use qpz_core::rng::{mix, Rng};
use qpz_core::{harness_error, Tier, EXIT_OK, EXIT_VIOLATION};
use qpz_world::{max_total_output, prove_leaf, random_deposit, random_digest, Block};
use serde::{Deserialize, Serialize};
use serde_json::json;
use std::cell::RefCell;
use std::collections::{BTreeMap, HashSet};
use std::rc::Rc;
use wormhole_aggregator::common::utils::{canonical_leaf_verifier_data, canonical_private_batch_verifier_data};
use wormhole_aggregator::private_batch::prover::PrivateBatchProver;
use wormhole_aggregator::public_batch::prover::{PublicBatchInputs, PublicBatchProver};
use wormhole_aggregator::verif_hooks;
use wormhole_inputs::BytesDigest;
use zk_circuits_common::circuit::{wormhole_private_batch_circuit_config, wormhole_public_batch_circuit_config, C, D, F};

type Proof = ProofWithPublicInputs<F, C, D>;
const QUICK_T: u64 = 6000;
const QUICK_T_OWN: u64 = 600;
const THOROUGH_T: u64 = 24_000;
const THOROUGH_T_OWN: u64 = 3000;
struct ReplayResult {
    findings: Vec<Finding>,
}
const P: u64 = 0xFFFF_FFFF_0000_0001;

#[derive(Clone, Copy, Debug, Serialize, Deserialize, PartialEq, Eq, Hash)]
#[serde(rename_all = "snake_case")]
enum Stream {
    /// xoshiro from the seed
    Good,
    /// the first `j` requests of at least one limb (8 bytes; the shipped code asks for 32 at once,
    /// a per-limb refactor for 8) return all-ones limbs (>= p), then good
    NonCanonicalFirst { j: u32 },
    /// every byte is this constant
    Stuck { byte: u8 },
    /// the stream repeats with this period (bytes)
    ShortCycle { period: u32 },
    /// no provider installed: the code's own generator
    OwnSource,
}

static OWN_SOURCE_SEEN: std::sync::Mutex<BTreeMap<[u64; 4], (usize, usize, String)>> = std::sync::Mutex::new(BTreeMap::new());

struct ProviderLog {
    requests: Vec<usize>,
    bytes: u64,
    noncanonical_served: u32,
}

fn install_provider(stream: Stream, seed: u64) -> Rc<RefCell<ProviderLog>> {
    let log = Rc::new(RefCell::new(ProviderLog { requests: vec![], bytes: 0, noncanonical_served: 0 }));
    if stream == Stream::OwnSource {
        verif_hooks::set_rng_provider(None);
        return log;
    }
    let l2 = log.clone();
    let mut rng = Rng::new(seed);
    let mut cycle: Vec<u8> = vec![];
    if let Stream::ShortCycle { period } = stream {
        cycle = (0..period).map(|_| rng.below(256) as u8).collect();
        // keep every 8-byte window canonical: clear high bits periodically
        for (i, b) in cycle.iter_mut().enumerate() {
            if i % 8 == 7 {
                *b &= 0x7f;
            }
        }
    }
    let mut pos = 0usize;
    verif_hooks::set_rng_provider(Some(Box::new(move |dest: &mut [u8]| {
        let mut l = l2.borrow_mut();
        l.requests.push(dest.len());
        l.bytes += dest.len() as u64;
        if l.requests.len() > 1_000_000 {
            harness_error("RNG provider: more than a million requests in one commit (rejection sampling is spinning on a degenerate stream)");
        }
        match stream {
            Stream::Good => rng.fill(dest),
            Stream::NonCanonicalFirst { j } => {
                if dest.len() >= 8 && l.noncanonical_served < j {
                    l.noncanonical_served += 1;
                    for b in dest.iter_mut() {
                        *b = 0xff;
                    }
                } else {
                    rng.fill(dest)
                }
            }
            // Degenerate streams are applied to the 32-byte preimage draws only: the shuffle's
            // rejection sampling would spin forever on a constant stream, which is a property of
            // the fault, not of the code under test.
            Stream::Stuck { byte } => {
                if dest.len() == 32 {
                    for b in dest.iter_mut() {
                        *b = byte;
                    }
                } else {
                    rng.fill(dest)
                }
            }
            Stream::ShortCycle { .. } => {
                if dest.len() == 32 {
                    for b in dest.iter_mut() {
                        *b = cycle[pos % cycle.len()];
                        pos += 1;
                    }
                } else {
                    rng.fill(dest)
                }
            }
            Stream::OwnSource => unreachable!(),
        }
    })));
    log
}

/// What one committed private batch looks like, read back from the partial witness.
#[derive(Clone, Debug, PartialEq, Eq)]
struct Committed {
    /// per slot: index of the supplied proof, or None for the template
    slots: Vec<Option<usize>>,
    /// per slot: the four preimage limbs
    preimages: Vec<[u64; 4]>,
}

fn read_slot_pis<W: Witness<F>>(pw: &W, t: &ProofWithPublicInputsTarget<D>) -> Option<Vec<u64>> {
    t.public_inputs.iter().map(|x| pw.try_get_target(*x).map(|f| f.to_canonical_u64())).collect()
}

fn read_cap0<W: Witness<F>>(pw: &W, t: &ProofWithPublicInputsTarget<D>) -> Option<Vec<u64>> {
    t.proof.wires_cap.0.first()?.elements.iter().map(|x| pw.try_get_target(*x).map(|f| f.to_canonical_u64())).collect()
}

fn proof_pis(p: &Proof) -> Vec<u64> {
    p.public_inputs.iter().map(|f| f.to_canonical_u64()).collect()
}
fn proof_cap0(p: &Proof) -> Vec<u64> {
    p.proof.wires_cap.0[0].elements.iter().map(|f| f.to_canonical_u64()).collect()
}

#[derive(Clone, Debug, Serialize, Deserialize)]
struct Finding {
    class: String,
    detail: String,
    n: usize,
    k: usize,
    stream: Stream,
    commit_seed: u64,
}

struct Fixture {
    leaf_proofs: Vec<Proof>,
    template: Proof,
}

fn chi2_crit(df: f64) -> f64 {
    // Wilson-Hilferty upper quantile at p = 1e-9 (z = 5.9978); conservative (over-estimates) for small df
    let z = 5.9978;
    let a = 2.0 / (9.0 * df);
    df * (1.0 - a + z * a.sqrt()).powi(3)
}

fn arrangement_index(slots: &[Option<usize>], k: usize) -> usize {
    // mixed-radix index of (position of proof 0, position of proof 1, ...)
    let n = slots.len();
    let mut idx = 0usize;
    for p in 0..k {
        let pos = slots.iter().position(|s| *s == Some(p)).unwrap_or(0);
        idx = idx * n + pos;
    }
    idx
}

fn num_arrangements(n: usize, k: usize) -> usize {
    (0..k).map(|i| n - i).product()
}

struct ComboResult {
    n: usize,
    k: usize,
    commits: u64,
    findings: Vec<Finding>,
    probes: Counters,
    chi2: BTreeMap<String, (f64, f64, usize)>,
    distinct_arrangements: usize,
    sample: Option<serde_json::Value>,
    hist: Vec<u64>,
    marg: Vec<Vec<u64>>,
    marg_own: Vec<Vec<u64>>,
    arrangements: HashSet<usize>,
}

/// Pearson chi-square of `observed` against the uniform distribution; records the statistic and
/// returns a finding when it exceeds the p = 1e-9 critical value (skipped below 20 expected per cell).
fn chi_uniform(label: &str, observed: &[u64], n: usize, k: usize, stream: Stream, out: &mut BTreeMap<String, (f64, f64, usize)>) -> Option<Finding> {
    let total: u64 = observed.iter().sum();
    let ncell = observed.len();
    if ncell < 2 || total == 0 {
        return None;
    }
    let e = total as f64 / ncell as f64;
    if e < 20.0 {
        return None;
    }
    let x2: f64 = observed.iter().map(|o| (*o as f64 - e).powi(2) / e).sum();
    let crit = chi2_crit((ncell - 1) as f64);
    out.insert(label.to_string(), (x2, crit, ncell));
    if x2 > crit {
        return Some(Finding { class: "commit:non-uniform-shuffle".into(), detail: format!("{label}: chi2 = {x2:.1} over {ncell} cells ({total} commits) exceeds the p=1e-9 critical value {crit:.1}; counts {:?}", observed), n, k, stream, commit_seed: 0 });
    }
    None
}

/// All uniformity tests for one batch shape over merged counts.
fn uniformity_tests(n: usize, k: usize, hist: &[u64], marg: &[Vec<u64>], marg_own: &[Vec<u64>], out: &mut BTreeMap<String, (f64, f64, usize)>) -> Vec<Finding> {
    let mut f = vec![];
    if n < 2 {
        return f;
    }
    // only reachable arrangements: indices with pairwise distinct positions; the joint test needs
    // a histogram small enough to be filled (skipped automatically below 20 expected per cell)
    let valid: Vec<u64> = (0..hist.len())
        .filter(|i| {
            let mut pos = vec![];
            let mut x = *i;
            for _ in 0..k {
                pos.push(x % n);
                x /= n;
            }
            let u: HashSet<usize> = pos.iter().copied().collect();
            u.len() == k
        })
        .map(|i| hist[i])
        .collect();
    f.extend(chi_uniform(&format!("arrangement N={n} k={k} (seeded stream)"), &valid, n, k, Stream::Good, out));
    for (p, m) in marg.iter().enumerate() {
        f.extend(chi_uniform(&format!("position of supplied proof {p}, N={n} k={k} (seeded stream)"), m, n, k, Stream::Good, out));
    }
    for (p, m) in marg_own.iter().enumerate() {
        f.extend(chi_uniform(&format!("position of supplied proof {p}, N={n} k={k} (own entropy source)"), m, n, k, Stream::OwnSource, out));
    }
    f
}

/// Run all commits for one (N, k) on this thread with one built prover.
fn run_combo(fx: &Fixture, n: usize, k: usize, t_first: u64, t_good: u64, t_own: u64, seed: u64, only: Option<(Stream, u64)>) -> ComboResult {
    let leaf = canonical_leaf_verifier_data();
    let mut prover = Some(PrivateBatchProver::new(wormhole_private_batch_circuit_config(), leaf.common.clone(), &leaf.verifier_only, n, fx.template.clone()).unwrap_or_else(|e| harness_error(&format!("cannot build the private-batch prover for N={n}: {e:#}"))));
    let supplied: Vec<Proof> = fx.leaf_proofs[..k].to_vec();
    let sup_pis: Vec<Vec<u64>> = supplied.iter().map(proof_pis).collect();
    let sup_cap: Vec<Vec<u64>> = supplied.iter().map(proof_cap0).collect();
    let tpl_pis = proof_pis(&fx.template);
    let tpl_cap = proof_cap0(&fx.template);
    let mut res = ComboResult { n, k, commits: 0, findings: vec![], probes: Counters::default(), chi2: BTreeMap::new(), distinct_arrangements: 0, sample: None, hist: vec![], marg: vec![], marg_own: vec![], arrangements: HashSet::new() };

    let mut commit_once = |stream: Stream, cseed: u64, res: &mut ComboResult| -> Option<(Committed, u64, u32)> {
        let mut p = prover.take().unwrap();
        let targets = p.verif_targets().expect("prover is armed");
        let log = install_provider(stream, cseed);
        let committed = p.commit(supplied.clone());
        verif_hooks::set_rng_provider(None);
        let mut p = match committed {
            Ok(p) => p,
            Err(e) => harness_error(&format!("commit of {k} compatible real leaves into N={n} failed: {e:#}")),
        };
        res.commits += 1;
        let pw = p.verif_partial_witness();
        let mut slots = vec![];
        let mut fail = |class: &str, detail: String, res: &mut ComboResult| {
            res.findings.push(Finding { class: class.into(), detail, n, k, stream, commit_seed: cseed });
        };
        for (i, t) in targets.leaf_proofs.iter().enumerate() {
            let (Some(v), Some(c)) = (read_slot_pis(pw, t), read_cap0(pw, t)) else {
                fail("commit:slot-unset", format!("slot {i} has unset proof targets"), res);
                slots.push(None);
                continue;
            };
            let which = (0..k).find(|j| sup_pis[*j] == v && sup_cap[*j] == c);
            if which.is_none() && !(v == tpl_pis && c == tpl_cap) {
                fail("commit:foreign-slot-content", format!("slot {i} holds neither a supplied proof nor the validated template"), res);
            }
            slots.push(which);
        }
        let mut preimages = vec![];
        for (i, t) in targets.dummy_nullifier_pre_images.iter().enumerate() {
            let mut limbs = [0u64; 4];
            for l in 0..4 {
                match pw.try_get_target(t[l]) {
                    Some(f) => limbs[l] = f.to_canonical_u64(),
                    None => fail("commit:preimage-unset", format!("slot {i} limb {l} preimage target unset"), res),
                }
            }
            preimages.push(limbs);
        }
        // 1. exactness (every stream)
        let mut counts = vec![0usize; k];
        let mut templates = 0usize;
        for s in &slots {
            match s {
                Some(j) => counts[*j] += 1,
                None => templates += 1,
            }
        }
        if slots.len() != n || counts.iter().any(|c| *c != 1) || templates != n - k {
            fail("commit:not-exactly-k-plus-padding", format!("slots {:?}: expected each of the {k} supplied proofs once and {} templates", slots, n - k), res);
        }
        let l = log.borrow();
        let out = (Committed { slots, preimages }, l.bytes, l.noncanonical_served);
        drop(l);
        p.verif_rearm(targets);
        prover = Some(p);
        Some(out)
    };

    let streams_good: u64 = t_good;
    let cells = num_arrangements(n, k);
    let mut hist = vec![0u64; n.pow(k as u32).max(1)];
    let mut marg = vec![vec![0u64; n]; k];
    let mut seen_pre: HashSet<[u64; 4]> = HashSet::new();
    let mut arrangements: HashSet<usize> = HashSet::new();

    if let Some((stream, cseed)) = only {
        // replay of one recorded commit: the same per-commit oracles as in the batch
        if let Some((c, bytes, _)) = commit_once(stream, cseed, &mut res) {
            if c.preimages.iter().flatten().any(|l| *l >= P) {
                res.findings.push(Finding { class: "commit:non-canonical-preimage".into(), detail: format!("preimages {:?}", c.preimages), n, k, stream, commit_seed: cseed });
            }
            if let Stream::NonCanonicalFirst { .. } = stream {
                if c.preimages.iter().any(|p| p.iter().all(|l| *l == u64::MAX % P)) {
                    res.findings.push(Finding { class: "commit:non-canonical-preimage".into(), detail: "an all-ones draw was reduced into a preimage instead of being rejected".into(), n, k, stream, commit_seed: cseed });
                }
            }
            if stream == Stream::Good {
                let limbs: Vec<u64> = c.preimages.iter().flatten().copied().collect();
                let uniq: HashSet<u64> = limbs.iter().copied().collect();
                if uniq.len() != limbs.len() {
                    res.findings.push(Finding { class: "commit:preimage-limbs-repeat".into(), detail: format!("the {} preimage limbs of one commit are not pairwise distinct: {:?}", limbs.len(), c.preimages), n, k, stream, commit_seed: cseed });
                }
                if bytes < 32 * n as u64 {
                    res.findings.push(Finding { class: "commit:too-little-randomness".into(), detail: format!("one commit consumed {bytes} bytes of randomness; {n} independent 32-byte preimages need at least {}", 32 * n), n, k, stream, commit_seed: cseed });
                }
                if let Some((c2, _, _)) = commit_once(stream, cseed, &mut res) {
                    if c2 != c {
                        res.findings.push(Finding { class: "commit:randomness-outside-the-seam".into(), detail: "two commits with the same inputs and the same seeded stream differ".into(), n, k, stream, commit_seed: cseed });
                    }
                }
            }
        }
        return res;
    }

    // ---- good streams: exactness, seam closure, freshness, canonicity, uniformity ----
    for t in t_first..t_first + streams_good {
        let cseed = mix(seed, ((n as u64) << 40) | ((k as u64) << 32) | t);
        let Some((c, bytes, _)) = commit_once(Stream::Good, cseed, &mut res) else { continue };
        if res.sample.is_none() {
            res.sample = Some(json!({"n": n, "k": k, "commit_seed": cseed, "slot_order": c.slots, "preimages": c.preimages, "rng_bytes_consumed": bytes}));
        }
        // canonicity
        if c.preimages.iter().flatten().any(|l| *l >= P) {
            res.findings.push(Finding { class: "commit:non-canonical-preimage".into(), detail: format!("preimages {:?}", c.preimages), n, k, stream: Stream::Good, commit_seed: cseed });
        }
        // freshness / independence
        let limbs: Vec<u64> = c.preimages.iter().flatten().copied().collect();
        let uniq: HashSet<u64> = limbs.iter().copied().collect();
        if uniq.len() != limbs.len() {
            res.findings.push(Finding { class: "commit:preimage-limbs-repeat".into(), detail: format!("the {} preimage limbs of one commit are not pairwise distinct: {:?}", limbs.len(), c.preimages), n, k, stream: Stream::Good, commit_seed: cseed });
        }
        for pr in &c.preimages {
            if !seen_pre.insert(*pr) {
                res.findings.push(Finding { class: "commit:preimage-reused-across-commits".into(), detail: format!("preimage {:?} already appeared in an earlier commit (different seed)", pr), n, k, stream: Stream::Good, commit_seed: cseed });
            }
        }
        if bytes < 32 * n as u64 {
            res.findings.push(Finding { class: "commit:too-little-randomness".into(), detail: format!("one commit consumed {bytes} bytes of randomness; {n} independent 32-byte preimages need at least {}", 32 * n), n, k, stream: Stream::Good, commit_seed: cseed });
        }
        // seam closure: same seed => identical order and preimages (first 40 commits)
        if t - t_first < 20 {
            if let Some((c2, _, _)) = commit_once(Stream::Good, cseed, &mut res) {
                if c2 != c {
                    res.findings.push(Finding { class: "commit:randomness-outside-the-seam".into(), detail: "two commits with the same inputs and the same seeded stream differ".into(), n, k, stream: Stream::Good, commit_seed: cseed });
                }
                res.probes.inc("seam_closure_checked");
            }
        }
        let a = arrangement_index(&c.slots, k);
        hist[a] += 1;
        arrangements.insert(a);
        for p in 0..k {
            if let Some(pos) = c.slots.iter().position(|s| *s == Some(p)) {
                marg[p][pos] += 1;
            }
        }
        if res.findings.len() > 5 {
            return res;
        }
    }
    res.distinct_arrangements = arrangements.len();
    res.arrangements = arrangements;
    res.hist = hist;
    res.marg = marg;
    // ---- faulted streams: exactness and canonicity must survive ----
    let faulted = [Stream::NonCanonicalFirst { j: 1 }, Stream::NonCanonicalFirst { j: 3 }, Stream::NonCanonicalFirst { j: 2 * n as u32 + 1 }, Stream::Stuck { byte: 0 }, Stream::Stuck { byte: 0x5a }, Stream::ShortCycle { period: 8 }, Stream::ShortCycle { period: 24 }];
    for (fi, st) in faulted.iter().enumerate() {
        if t_first != 0 {
            break;
        }
        for rep in 0..4u64 {
            let cseed = mix(seed, 0xFA00_0000 + ((n as u64) << 20) + ((k as u64) << 12) + (fi as u64) * 16 + rep);
            if std::env::var("VERIF_C15_DEBUG").is_ok() {
                eprintln!("N={n} k={k} stream {:?} rep {rep}", st);
            }
            let Some((c, _, served)) = commit_once(*st, cseed, &mut res) else { continue };
            res.probes.inc(&format!("faulted_stream_{}", match st { Stream::NonCanonicalFirst { .. } => "non_canonical_first", Stream::Stuck { .. } => "stuck", Stream::ShortCycle { .. } => "short_cycle", _ => "other" }));
            if c.preimages.iter().flatten().any(|l| *l >= P) {
                res.findings.push(Finding { class: "commit:non-canonical-preimage".into(), detail: format!("preimages {:?}", c.preimages), n, k, stream: *st, commit_seed: cseed });
            }
            if let Stream::NonCanonicalFirst { j } = st {
                if served > 0 {
                    res.probes.add("rejection_loop_iterated", served as u64);
                }
                // the all-ones value must never reach a slot
                if c.preimages.iter().any(|p| p.iter().all(|l| *l == u64::MAX % P)) {
                    res.findings.push(Finding { class: "commit:non-canonical-preimage".into(), detail: "an all-ones draw was reduced into a preimage instead of being rejected".into(), n, k, stream: *st, commit_seed: cseed });
                }
                let _ = j;
            }
        }
    }

    // ---- own-source runs: the shipped entropy source, not masked by the provider ----
    if t_own > 0 {
        let mut hist_o = vec![vec![0u64; n]; k];
        let mut seen_o: HashSet<[u64; 4]> = HashSet::new();
        let mut prev: Option<Committed> = None;
        for t in 0..t_own {
            let Some((c, _, _)) = commit_once(Stream::OwnSource, t, &mut res) else { continue };
            res.probes.inc("own_source_commit");
            if c.preimages.iter().flatten().any(|l| *l >= P) {
                res.findings.push(Finding { class: "commit:non-canonical-preimage".into(), detail: format!("preimages {:?}", c.preimages), n, k, stream: Stream::OwnSource, commit_seed: t });
            }
            let limbs: Vec<u64> = c.preimages.iter().flatten().copied().collect();
            let uniq: HashSet<u64> = limbs.iter().copied().collect();
            if uniq.len() != limbs.len() {
                res.findings.push(Finding { class: "commit:preimage-limbs-repeat".into(), detail: format!("own source: limbs of one commit repeat: {:?}", c.preimages), n, k, stream: Stream::OwnSource, commit_seed: t });
            }
            // own-source preimages of ALL batch shapes, which are committed on different OS threads of
            // this process: a per-thread generator that every thread seeds alike repeats across threads
            {
                let mut g = OWN_SOURCE_SEEN.lock().unwrap();
                for pr in &c.preimages {
                    if let Some((on, ok, tid)) = g.insert(*pr, (n, k, format!("{:?}", std::thread::current().id()))) {
                        if (on, ok) != (n, k) || tid != format!("{:?}", std::thread::current().id()) {
                            res.findings.push(Finding { class: "commit:preimage-reused-across-commits".into(), detail: format!("own source: preimage {:?} was also drawn by a commit of shape N={on} k={ok} on another thread of this process", pr), n, k, stream: Stream::OwnSource, commit_seed: t });
                        }
                    }
                }
            }
            for pr in &c.preimages {
                if !seen_o.insert(*pr) {
                    res.findings.push(Finding { class: "commit:preimage-reused-across-commits".into(), detail: format!("own source: preimage {:?} repeated across commits (constant-seeded or re-seeded generator?)", pr), n, k, stream: Stream::OwnSource, commit_seed: t });
                }
            }
            if let Some(p) = &prev {
                if p.preimages == c.preimages {
                    res.findings.push(Finding { class: "commit:preimage-reused-across-commits".into(), detail: "own source: two consecutive commits carry identical preimages".into(), n, k, stream: Stream::OwnSource, commit_seed: t });
                }
            }
            for p in 0..k {
                if let Some(pos) = c.slots.iter().position(|s| *s == Some(p)) {
                    hist_o[p][pos] += 1;
                }
            }
            prev = Some(c);
            if res.findings.len() > 5 {
                return res;
            }
        }
        res.marg_own = hist_o;
    }
    res
}

/// Public batch: supplied inner proofs in the given order, then templates (no randomness).
fn run_public(fxp: &PublicFixture, m: usize, findings: &mut Vec<Finding>, probes: &mut Counters, rng: &mut Rng, reps: usize) -> u64 {
    let leaf = canonical_leaf_verifier_data();
    let pb = canonical_private_batch_verifier_data(&leaf, 1).unwrap();
    let mut prover = Some(PublicBatchProver::new(wormhole_public_batch_circuit_config(), pb.common.clone(), &pb.verifier_only, m, 1, fxp.template.clone()).unwrap_or_else(|e| harness_error(&format!("cannot build the public-batch prover for M={m}: {e:#}"))));
    let tpl = (proof_pis(&fxp.template), proof_cap0(&fxp.template));
    let mut commits = 0u64;
    for k in 1..=m {
        for rep in 0..reps {
            // a random ordered selection of k inner proofs: distinct ones (must be accepted), and, every
            // third repetition, drawn WITH replacement and possibly including the padding template itself
            // (what the property says about order holds for whatever vector commit accepts)
            let with_repeats = rep % 3 == 2 && k >= 2;
            // every third repetition (offset 1): the padding template supplied by the caller AHEAD of a real
            // inner proof (k - 1 distinct proofs with the template at a non-last position)
            let template_ahead = rep % 3 == 1 && k >= 2;
            let proofs: Vec<Proof> = if template_ahead {
                let mut idx: Vec<usize> = (0..fxp.inners.len()).collect();
                rng.shuffle(&mut idx);
                idx.truncate(k - 1);
                let mut v: Vec<Proof> = idx.iter().map(|i| fxp.inners[*i].clone()).collect();
                v.insert(rng.usize(v.len()), fxp.template.clone());
                v
            } else if with_repeats {
                let mut v: Vec<Proof> = (0..k).map(|_| if rng.chance(1, 6) { fxp.template.clone() } else { fxp.inners[rng.usize(fxp.inners.len())].clone() }).collect();
                // make sure something repeats
                let j = rng.usize(k - 1);
                v[k - 1] = v[j].clone();
                v
            } else {
                let mut idx: Vec<usize> = (0..fxp.inners.len()).collect();
                rng.shuffle(&mut idx);
                idx.truncate(k);
                idx.iter().map(|i| fxp.inners[*i].clone()).collect()
            };
            let mut p = prover.take().unwrap();
            let targets = p.verif_targets().expect("armed");
            let mut p2 = match p.commit(PublicBatchInputs { proofs: proofs.clone(), aggregator_address: BytesDigest::try_from([9u8; 32]).unwrap() }) {
                Ok(x) => x,
                Err(_) if with_repeats || template_ahead => {
                    // a vector with repeats may be refused (that is C14's business); rebuild the consumed prover
                    probes.inc("public_commit_with_repeats_refused");
                    prover = Some(PublicBatchProver::new(wormhole_public_batch_circuit_config(), pb.common.clone(), &pb.verifier_only, m, 1, fxp.template.clone()).unwrap_or_else(|e| harness_error(&format!("cannot rebuild the public-batch prover for M={m}: {e:#}"))));
                    continue;
                }
                Err(e) => harness_error(&format!("public commit of {k} compatible inner proofs into M={m} failed: {e:#}")),
            };
            if with_repeats {
                probes.inc("public_commit_with_repeats_accepted");
            }
            if template_ahead {
                probes.inc("public_commit_with_template_ahead_accepted");
            }
            commits += 1;
            let pw = p2.verif_partial_witness();
            for (i, t) in targets.private_batch_proofs.iter().enumerate() {
                let got = (read_slot_pis(pw, t), read_cap0(pw, t));
                let want = if i < k { (proof_pis(&proofs[i]), proof_cap0(&proofs[i])) } else { tpl.clone() };
                if got != (Some(want.0), Some(want.1)) {
                    findings.push(Finding { class: "commit:public-batch-order".into(), detail: format!("M={m} k={k}: slot {i} does not hold {}", if i < k { "the supplied inner proof of that position" } else { "the dummy template" }), n: m, k, stream: Stream::Good, commit_seed: 0 });
                }
            }
            probes.inc("public_commit_checked");
            p2.verif_rearm(targets);
            p = p2;
            prover = Some(p);
        }
    }
    commits
}

/// Silence the builder's progress output while it runs in-process.
struct Gag(i32);
impl Gag {
    fn new() -> Gag {
        use std::io::Write;
        let _ = std::io::stdout().flush();
        let saved = unsafe { libc_dup(1) };
        unsafe {
            let devnull = libc_open(b"/dev/null\0".as_ptr() as *const i8, 1);
            libc_dup2(devnull, 1);
            libc_close(devnull);
        }
        Gag(saved)
    }
}
impl Drop for Gag {
    fn drop(&mut self) {
        use std::io::Write;
        let _ = std::io::stdout().flush();
        unsafe {
            libc_dup2(self.0, 1);
            libc_close(self.0);
        }
    }
}
extern "C" {
    #[link_name = "dup"]
    fn libc_dup(fd: i32) -> i32;
    #[link_name = "dup2"]
    fn libc_dup2(a: i32, b: i32) -> i32;
    #[link_name = "close"]
    fn libc_close(fd: i32) -> i32;
    #[link_name = "open"]
    fn libc_open(p: *const i8, flags: i32, ...) -> i32;
}

struct ShapeResult {
    n: usize,
    k: usize,
    commits: u64,
    findings: Vec<Finding>,
    probes: Counters,
    chi2: BTreeMap<String, (f64, f64, usize)>,
    distinct_arrangements: usize,
    sample: Option<serde_json::Value>,
}

/// All commits of one batch shape, split over `chunks` threads (each builds its own prover);
/// counts are merged before the uniformity tests, so the result does not depend on the split.
fn run_shape(fx: &Fixture, n: usize, k: usize, t_good: u64, t_own: u64, seed: u64, chunks: u64) -> ShapeResult {
    let per = t_good.div_ceil(chunks.max(1));
    let parts: Vec<ComboResult> = std::thread::scope(|s| {
        let hs: Vec<_> = (0..chunks.max(1)).map(|c| s.spawn(move || run_combo(fx, n, k, c * per, per.min(t_good.saturating_sub(c * per)), if c == 0 { t_own } else { 0 }, seed, None))).collect();
        hs.into_iter().map(|h| h.join().unwrap_or_else(|_| harness_error("a commit worker panicked"))).collect()
    });
    let mut out = ShapeResult { n, k, commits: 0, findings: vec![], probes: Counters::default(), chi2: BTreeMap::new(), distinct_arrangements: 0, sample: None };
    let mut hist: Vec<u64> = vec![];
    let mut marg: Vec<Vec<u64>> = vec![];
    let mut marg_own: Vec<Vec<u64>> = vec![];
    let mut arr: HashSet<usize> = HashSet::new();
    let add = |a: &mut Vec<u64>, b: &[u64]| {
        if a.len() < b.len() {
            a.resize(b.len(), 0);
        }
        for (x, y) in a.iter_mut().zip(b) {
            *x += *y;
        }
    };
    for p in parts {
        out.commits += p.commits;
        out.findings.extend(p.findings);
        out.probes.merge(&p.probes);
        if out.sample.is_none() {
            out.sample = p.sample;
        }
        add(&mut hist, &p.hist);
        for (i, m) in p.marg.iter().enumerate() {
            if marg.len() <= i {
                marg.push(vec![]);
            }
            add(&mut marg[i], m);
        }
        for (i, m) in p.marg_own.iter().enumerate() {
            if marg_own.len() <= i {
                marg_own.push(vec![]);
            }
            add(&mut marg_own[i], m);
        }
        arr.extend(p.arrangements);
    }
    out.distinct_arrangements = arr.len();
    let f = uniformity_tests(n, k, &hist, &marg, &marg_own, &mut out.chi2);
    out.findings.extend(f);
    out
}

fn chunks_for(n: usize) -> u64 {
    n.min(4) as u64
}

struct PublicFixture {
    inners: Vec<Proof>,
    template: Proof,
}

#[derive(Serialize, Deserialize)]
struct ReplayFile {
    property: String,
    sim: String,
    seed: u64,
    finding: Finding,
    note: String,
}

fn build_fixture(seed: u64, max_k: usize) -> (Fixture, Block) {
    let mut rng = Rng::new(mix(seed, 0xF1C5));
    let deposits = (0..max_k.max(2) + 1).map(|_| random_deposit(&mut rng, 0)).collect();
    let block = Block::new(deposits, 11, &mut rng);
    let fee = 10;
    let inputs: Vec<_> = (0..max_k).map(|i| {
        let total = max_total_output(block.deposits[i].input_amount, fee);
        block.spend(i, total / 3 + i as u32, total / 5, fee, random_digest(&mut rng), random_digest(&mut rng))
    }).collect();
    let leaf_proofs: Vec<Proof> = std::thread::scope(|s| {
        let hs: Vec<_> = inputs.iter().map(|inp| s.spawn(move || prove_leaf(inp).unwrap_or_else(|e| harness_error(&format!("cannot prove a real leaf: {e:#}"))))).collect();
        hs.into_iter().map(|h| h.join().unwrap()).collect()
    });
    let template = prove_leaf(&qpz_world::dummy_inputs().unwrap()).unwrap_or_else(|e| harness_error(&format!("cannot prove the dummy template: {e:#}")));
    (Fixture { leaf_proofs, template }, block)
}

fn main() {
    let args: Vec<String> = std::env::args().collect();
    let mut tier_arg = None;
    let mut replay: Option<String> = None;
    let mut i = 1;
    while i < args.len() {
        match args[i].as_str() {
            "--property" => i += 1,
            "--tier" => { tier_arg = Some(args[i + 1].clone()); i += 1; }
            "--replay" => { replay = Some(args[i + 1].clone()); i += 1; }
            other => harness_error(&format!("unknown argument {other}")),
        }
        i += 1;
    }
    let seed = qpz_core::seed_from_env();
    let tier = Tier::from_env_or(tier_arg.as_deref());
    println!("VERIF_SEED={seed} property=C15 tier={} sim=rng", tier.as_str());
    let t0 = qpz_core::real_now_ns();
    let quick = tier == Tier::Quick;
    let max_n = if quick { 3 } else { 4 };
    let (fx, _block) = build_fixture(seed, max_n.max(4));

    // seam self-test: with a provider installed the hooks must draw from it, without one they must not
    {
        let log = install_provider(Stream::Good, 1);
        let leaf = canonical_leaf_verifier_data();
        let p = PrivateBatchProver::new(wormhole_private_batch_circuit_config(), leaf.common.clone(), &leaf.verifier_only, 2, fx.template.clone()).unwrap_or_else(|e| harness_error(&format!("cannot build prover: {e:#}")));
        let _ = p.commit(vec![fx.leaf_proofs[0].clone()]).unwrap_or_else(|e| harness_error(&format!("self-test commit failed: {e:#}")));
        verif_hooks::set_rng_provider(None);
        if log.borrow().bytes == 0 {
            harness_error("RNG seam self-test: a commit with N=2 drew nothing from the installed provider (hook dead?)");
        }
    }

    if let Some(path) = replay {
        let rf: ReplayFile = serde_json::from_str(&std::fs::read_to_string(&path).unwrap_or_else(|e| harness_error(&format!("cannot read {path}: {e}")))).unwrap_or_else(|e| harness_error(&format!("bad replay file: {e}")));
        let f = &rf.finding;
        let res = if f.class == "commit:non-uniform-shuffle" || f.stream == Stream::OwnSource || f.class.contains("across-commits") {
            // batch-level findings: re-run the whole (N,k) batch with the recorded seed
            let (tg, to) = if quick { (QUICK_T, QUICK_T_OWN) } else { (THOROUGH_T, THOROUGH_T_OWN) };
            run_shape(&fx, f.n, f.k, tg, to, rf.seed, chunks_for(f.n)).findings
        } else {
            run_combo(&fx, f.n, f.k, 0, 0, 0, rf.seed, Some((f.stream, f.commit_seed))).findings
        };
        let res = ReplayResult { findings: res };
        for x in &res.findings {
            println!("replayed: class={} {}", x.class, x.detail);
        }
        if res.findings.iter().any(|x| x.class == f.class) || !res.findings.is_empty() {
            println!("VIOLATION property=C15 replay={path}");
            std::process::exit(EXIT_VIOLATION);
        }
        println!("replay: no violation on this tree");
        std::process::exit(EXIT_OK);
    }

    // (N, k) combos, split into chunks so every core has work; each chunk builds its own prover
    let t_good: u64 = std::env::var("VERIF_C15_T").ok().and_then(|s| s.parse().ok()).unwrap_or(if quick { QUICK_T } else { THOROUGH_T });
    let t_own: u64 = if quick { QUICK_T_OWN } else { THOROUGH_T_OWN };
    let mut jobs: Vec<(usize, usize)> = vec![];
    for n in 1..=max_n {
        for k in 1..=n {
            jobs.push((n, k));
        }
    }
    if !quick {
        jobs.push((8, 3)); // marginal tests only (cells too many for the joint test at this T)
    }
    let results: Vec<ShapeResult> = std::thread::scope(|s| {
        let hs: Vec<_> = jobs.iter().map(|(n, k)| { let fx = &fx; s.spawn(move || run_shape(fx, *n, *k, t_good, t_own, seed, chunks_for(*n))) }).collect();
        hs.into_iter().map(|h| h.join().unwrap_or_else(|_| harness_error("a commit worker panicked"))).collect()
    });

    // public batch
    let mut findings: Vec<Finding> = vec![];
    let mut probes = Counters::default();
    let mut public_commits = 0u64;
    {
        let leaf = canonical_leaf_verifier_data();
        let max_m = 3;
        let inners: Vec<Proof> = std::thread::scope(|s| {
            let hs: Vec<_> = (0..max_m).map(|i| { let fx = &fx; let leaf = &leaf; s.spawn(move || {
                let p = PrivateBatchProver::new(wormhole_private_batch_circuit_config(), leaf.common.clone(), &leaf.verifier_only, 1, fx.template.clone()).unwrap();
                p.commit(vec![fx.leaf_proofs[i].clone()]).and_then(|c| c.prove()).unwrap_or_else(|e| harness_error(&format!("cannot prove an inner private batch: {e:#}")))
            }) }).collect();
            hs.into_iter().map(|h| h.join().unwrap()).collect()
        });
        // template: all-dummy private batch, built the way the builder does it is private; use a commit-free path:
        // the public prover only needs a validated template, which the reference builder generates. Here: prove an
        // all-dummy batch through the private-batch circuit directly.
        // the validated all-dummy private-batch template, as the real builder generates it
        let template = {
            let dir = std::path::PathBuf::from(format!("/dev/shm/qpz-rng-{}", std::process::id()));
            let _ = std::fs::remove_dir_all(&dir);
            let gag = Gag::new();
            let r = circuit_builder::generate_all_circuit_binaries(dir.join("bins"), true, 1, None);
            drop(gag);
            r.unwrap_or_else(|e| harness_error(&format!("the unchanged builder failed to generate (1,-): {e:#}")));
            let pb = canonical_private_batch_verifier_data(&leaf, 1).unwrap();
            let bytes = std::fs::read(dir.join("bins/dummy_private_batch_proof.bin")).unwrap();
            let _ = std::fs::remove_dir_all(&dir);
            Proof::from_bytes(bytes, &pb.common).unwrap_or_else(|e| harness_error(&format!("generated template does not parse: {e}")))
        };
        let fxp = PublicFixture { inners, template };
        let mut rng = Rng::new(mix(seed, 0x9B));
        for m in 1..=max_m {
            public_commits += run_public(&fxp, m, &mut findings, &mut probes, &mut rng, if quick { 9 } else { 60 });
        }
    }

    let mut commits = public_commits;
    let mut chi = serde_json::Map::new();
    let mut samples = vec![];
    let mut distinct = 0u64;
    for r in &results {
        commits += r.commits;
        findings.extend(r.findings.iter().cloned());
        probes.merge(&r.probes);
        distinct += r.distinct_arrangements as u64;
        for (k, (x2, crit, cells)) in &r.chi2 {
            chi.insert(k.clone(), json!({"chi2": (x2 * 10.0).round() / 10.0, "critical_p1e-9": (crit * 10.0).round() / 10.0, "cells": cells}));
        }
        if let Some(s) = &r.sample {
            if samples.len() < 3 {
                samples.push(s.clone());
            }
        }
        let _ = (r.n, r.k);
    }
    let wall = (qpz_core::real_now_ns() - t0) as f64 / 1e9;
    let mut exit = EXIT_OK;
    let mut replay_path = String::new();
    if let Some(f) = findings.first() {
        let rf = ReplayFile { property: "C15".into(), sim: "rng".into(), seed, finding: f.clone(), note: "per-commit findings replay that single commit from (stream, commit_seed); batch-level findings (uniformity, reuse across commits, own-source) re-run the (N,k) batch with this VERIF_SEED".into() };
        replay_path = format!("{}/C15-{}.json", qpz_core::replay_dir(), qpz_core::rng::hash_str(&serde_json::to_string(&rf.finding).unwrap()));
        std::fs::write(&replay_path, serde_json::to_string_pretty(&rf).unwrap()).unwrap();
        println!("violation class={} N={} k={} stream={:?}: {}", f.class, f.n, f.k, f.stream, f.detail);
        println!("VIOLATION property=C15 replay={replay_path}");
        exit = EXIT_VIOLATION;
    }
    if probes.get("rejection_loop_iterated") == 0 && exit == EXIT_OK {
        // the non-canonical-first streams must have driven the rejection loop
        harness_error("reach probe 'rejection_loop_iterated' is zero: the non-canonical stream never reached the preimage generator");
    }
    let mut extra = serde_json::Map::new();
    extra.insert("commits".into(), json!(commits));
    extra.insert("runs_per_hour".into(), json!((commits as f64 / wall * 3600.0).round()));
    extra.insert("batch_shapes".into(), json!(jobs));
    extra.insert("chi_square_tests".into(), serde_json::Value::Object(chi));
    extra.insert("reach_probes".into(), probes.to_json());
    extra.insert("faults_fired".into(), json!({"non_canonical_first": probes.get("faulted_stream_non_canonical_first"), "stuck_at_constant": probes.get("faulted_stream_stuck"), "short_cycle": probes.get("faulted_stream_short_cycle")}));
    extra.insert("simulated_time".into(), json!("not applicable: commit has no timers"));
    extra.insert("components".into(), json!({
        "real": ["PrivateBatchProver::commit, generate_random_nullifier_preimage, fill_private_batch_witness", "PublicBatchProver::commit, fill_public_batch_witness", "canonical leaf / private-batch / public-batch circuits", "real leaf proofs and real private-batch proofs"],
        "stub": [],
        "simulated": ["process randomness at the two thread_rng sites (guarded wrapper: seeded and faulted byte streams); own-source runs use the code's own generator"]
    }));
    if !replay_path.is_empty() {
        extra.insert("replay".into(), json!(replay_path));
    }
    let ev = Evidence {
        property_id: "C15".into(),
        tier: tier.as_str().into(),
        seed,
        level: "exploration".into(),
        evaluations: commits,
        distinct_nontrivial: distinct,
        rule: "one evaluation = one commit of k real leaf proofs into an N-slot private batch (or k inner proofs into an M-slot public batch) under a seeded, faulted or own-source random stream, with the committed partial witness read back; distinct_nontrivial = number of distinct slot arrangements of the supplied proofs observed, summed over batch shapes (every one differs from the input order or contains padding)".into(),
        samples,
        exhaustive: None,
        extra,
        assumptions: vec![
            "uniformity is a statistical statement: Pearson chi-square at p = 1e-9 over the arrangement histogram (and per-proof position marginals); own-source runs use real entropy and are the only part that is not a function of VERIF_SEED".into(),
            "stack copies of preimages and the quality of the operating system's entropy are outside this check".into(),
        ],
        wall_s: wall,
        violations: if exit == EXIT_OK { 0 } else { 1 },
    };
    ev.write(&qpz_core::evidence_path("C15")).unwrap_or_else(|e| harness_error(&format!("cannot write evidence: {e}")));
    println!("C15: commits={commits} arrangements={distinct} findings={} wall={wall:.1}s", findings.len());
    std::process::exit(exit);
}
