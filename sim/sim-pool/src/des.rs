//! The miner service assembled around the pool, as a discrete-event
//! simulation: clients with at-least-once delivery, a lossy/duplicating/
//! reordering/corrupting network, block imports with a rival miner, an expiry
//! timer, a policy loop with long-running proving jobs, operator removals,
//! miner stalls and restarts. Every decision comes from one seeded PRNG; the
//! realised operations at the pool boundary are recorded as `Step`s.
use crate::exec::{Backend, Exec, KeyRepr, Outcome, PoolParams, Step, Violation};
use crate::fake::Mutation;
use qpz_core::evidence::Counters;
use qpz_core::rng::Rng;
use serde::{Deserialize, Serialize};
use std::cmp::Reverse;
use std::collections::{BTreeSet, BinaryHeap};

pub const S: u64 = 1_000_000_000;
pub const MS: u64 = 1_000_000;

/// What the simulation needs to know about the proof corpus.
pub trait World {
    fn corpus_len(&self) -> usize;
    fn key_of(&self, id: usize) -> KeyRepr;
    fn nullifiers_of(&self, id: usize) -> Vec<[u64; 4]>;
    fn is_dummy(&self, id: usize) -> bool;
    fn pi_len(&self) -> usize;
    fn universe_keys(&self) -> Vec<KeyRepr>;
}

#[derive(Clone, Debug, Serialize, Deserialize)]
pub struct Faults {
    pub drop_pm: u64,      // per mille
    pub dup_pm: u64,
    pub corrupt_pm: u64,
    pub byzantine_pm: u64,
    pub jitter_ns: u64,
    pub partitions: bool,
    pub stalls: bool,
    pub crashes: bool,
    pub job_crash_pm: u64,
    pub submit_loss_pm: u64,
    pub rival_pm: u64,
    pub verify_stall: bool,
    pub boundary_probes: bool,
    pub operator: bool,
}

impl Faults {
    pub fn none() -> Self {
        Faults { drop_pm: 0, dup_pm: 0, corrupt_pm: 0, byzantine_pm: 0, jitter_ns: 0, partitions: false, stalls: false, crashes: false, job_crash_pm: 0, submit_loss_pm: 0, rival_pm: 0, verify_stall: false, boundary_probes: false, operator: false }
    }
    pub fn any(&self) -> bool {
        self.drop_pm + self.dup_pm + self.corrupt_pm + self.byzantine_pm + self.job_crash_pm + self.submit_loss_pm + self.rival_pm > 0
            || self.partitions || self.stalls || self.crashes || self.verify_stall || self.boundary_probes || self.operator || self.jitter_ns > 0
    }
}

#[derive(Clone, Debug, Serialize, Deserialize)]
pub struct RunParams {
    pub pool: PoolParams,
    pub clients: usize,
    pub world_proofs: Vec<usize>,
    pub faults: Faults,
    pub block_interval_ns: u64,
    pub expiry_period_ns: u64,
    pub max_age_ns: u64,
    pub policy_period_ns: u64,
    pub reprove_timeout_ns: u64,
    pub send_gap_ns: u64,
    pub max_events: usize,
}

pub fn draw_params<W: World>(w: &W, n: usize, rng: &mut Rng) -> RunParams {
    let mut p = rng.fork("params");
    let batch = p.range(1, 4) as usize;
    let max_proofs = p.range(batch as u64, 8) as usize;
    // whole and fractional seconds, sub-second, and one nanosecond off a whole second: a limit
    // handled in truncated units (seconds, milliseconds) behaves differently only on the latter
    let window_ns = *p.pick(&[1 * S, 5 * S, 60 * S, 900 * MS, 3900 * MS, 250 * MS, S + 1, 2 * S - 1, 59_999 * MS + 999_999, 900 * MS + 500_000, MS + 1, 1_500 * MS + 1, 7 * S + 300 * MS, u64::MAX]);
    // u64::MAX stands for Duration::MAX (a window that never ends); scheduling uses a finite stand-in
    let wsched = if window_ns == u64::MAX { 5 * S } else { window_ns };
    // one setting in ten is "unlimited" (the largest representable value): limits that never bind must
    // behave like no limit, not overflow
    let unlimited = |p: &mut Rng, v: usize| if p.chance(1, 10) { usize::MAX } else { v };
    let max_proofs = unlimited(&mut p, max_proofs);
    let max_buckets = { let v = p.range(1, 4) as usize; unlimited(&mut p, v) };
    let max_verifies = { let v = p.range(1, 9) as usize; unlimited(&mut p, v) };
    let pool = PoolParams { n, batch, max_proofs, max_buckets, max_verifies, window_ns };
    let nworld = p.range(6, 28) as usize;
    let mut ids: Vec<usize> = (0..w.corpus_len()).collect();
    p.shuffle(&mut ids);
    // one run in three concentrates the workload on one hot key, so that buckets several batches
    // deep (partial expiry with survivors, repeated snapshots, settlement inside a deep bucket)
    // are not left to chance
    if p.chance(1, 3) {
        let hot = w.key_of(ids[0]);
        let (mut same, other): (Vec<usize>, Vec<usize>) = ids.iter().partition(|i| w.key_of(**i) == hot && !w.is_dummy(**i));
        same.truncate(nworld.saturating_sub(2).max(1));
        same.extend(other.into_iter().take(2));
        p.shuffle(&mut same);
        ids = same;
    }
    ids.truncate(nworld);
    // swarm: each fault kind is enabled per run with its own coin; 1 run in 6 has none
    let faults = if p.chance(1, 6) {
        Faults::none()
    } else {
        let mut on = |pm: &[u64]| if p.chance(1, 2) { *p.pick(pm) } else { 0 };
        Faults {
            drop_pm: on(&[20, 100, 300]),
            dup_pm: on(&[50, 200]),
            corrupt_pm: on(&[30, 150]),
            byzantine_pm: on(&[100, 400]),
            jitter_ns: on(&[10 * MS, 2 * S, 20 * S]),
            job_crash_pm: on(&[100, 400]),
            submit_loss_pm: on(&[100, 300]),
            rival_pm: on(&[100, 400]),
            partitions: p.chance(1, 3),
            stalls: p.chance(1, 3),
            crashes: p.chance(1, 4),
            verify_stall: p.chance(1, 3),
            boundary_probes: p.chance(1, 2),
            operator: p.chance(1, 3),
        }
    };
    // time scales are tied to the window so boundaries are crossed often
    let send_gap_ns = *p.pick(&[wsched / 20, wsched / 5, wsched / 2, wsched * 2]).max(&MS);
    RunParams {
        pool,
        clients: p.range(2, 6) as usize,
        world_proofs: ids,
        faults,
        block_interval_ns: *p.pick(&[6 * S, 12 * S, 30 * S]),
        expiry_period_ns: *p.pick(&[10 * S, 60 * S, 300 * S]),
        max_age_ns: *p.pick(&[20 * S, 90 * S, 600 * S, 1800 * S, 20 * S + 500 * MS, 7 * S + 1, 90 * S - 1, 750 * MS]),
        policy_period_ns: *p.pick(&[3 * S, 10 * S, 45 * S]),
        reprove_timeout_ns: *p.pick(&[20 * S, 60 * S]),
        send_gap_ns,
        max_events: p.range(50, 160) as usize,
    }
}

#[derive(Clone, Debug)]
enum Ev {
    ClientSend { client: usize, proof: usize, attempt: u32 },
    Deliver { client: usize, proof: usize, attempt: u32, mutation: Option<Mutation> },
    Ack { client: usize, proof: usize, accepted: bool },
    Retry { client: usize, proof: usize, attempt: u32 },
    BlockTick,
    BlockImport { nullifiers: Vec<[u64; 4]> },
    ExpiryTick { max_age_ns: u64 },
    PolicyTick,
    JobDone { job: usize },
    OperatorRemove,
    StallStart,
    StallEnd,
    MinerCrash,
    PartitionStart,
    PartitionEnd,
    BoundaryProbe,
    Stats,
}

struct Job {
    nullifiers: Vec<[u64; 4]>,
}

pub struct RunOutput {
    pub params: RunParams,
    pub steps: Vec<Step>,
    pub violation: Option<Violation>,
    pub probes: Counters,
    pub faults_fired: Counters,
    pub foreign: Counters,
    pub states: Vec<u64>,
    pub triples: Vec<u64>,
    pub sim_time_ns: u64,
    pub events: usize,
    pub cost: Vec<(crate::model::Decision, u64)>,
    pub log: Vec<String>,
    pub state_changing: bool,
}

pub fn random_mutation(pi_len: usize, rng: &mut Rng) -> Mutation {
    match rng.below(10) {
        0..=3 => Mutation::FlipPi { idx: rng.usize(pi_len) },
        4 => Mutation::ZeroBlock,
        5 => Mutation::PiShorter,
        6 => Mutation::PiLonger,
        7 => Mutation::PiLeafLen,
        _ => Mutation::FlipByte { offset: rng.usize(1 << 20), bit: rng.below(8) as u8 },
    }
}

pub fn run<B: Backend, W: World>(be: &mut B, w: &W, params: RunParams, seed: u64, keep_log: bool) -> RunOutput {
    let root = Rng::new(seed);
    let mut sched = root.fork("schedule");
    let mut fr = root.fork("faults");
    let mut wl = root.fork("workload");
    let f = params.faults.clone();
    // finite stand-in for a never-ending window in every scheduling computation
    let wsched: u64 = if params.pool.window_ns == u64::MAX { 5 * S } else { params.pool.window_ns };
    let mut fired = Counters::default();

    let mut heap: BinaryHeap<Reverse<(u64, u64, usize)>> = BinaryHeap::new();
    let mut evs: Vec<Ev> = vec![];
    let mut seq = 0u64;
    macro_rules! at {
        ($t:expr, $e:expr) => {{
            seq += 1;
            evs.push($e);
            heap.push(Reverse(($t, seq, evs.len() - 1)));
        }};
    }

    let mut exec = Exec::new(be, params.pool.clone(), 0);
    exec.keep_log = keep_log;
    let mut steps: Vec<Step> = vec![Step::NewPool { t: 0 }];
    // (the executor already created the pool at t=0; the NewPool step is recorded so replays start the same way)

    // workload: clients own world proofs and submit them over time
    let mut t_send = 0u64;
    for (i, proof) in params.world_proofs.iter().enumerate() {
        t_send += wl.range(0, params.send_gap_ns);
        at!(t_send, Ev::ClientSend { client: i % params.clients, proof: *proof, attempt: 0 });
    }
    let horizon = t_send + 4 * wsched + 60 * S;
    at!(params.block_interval_ns, Ev::BlockTick);
    at!(params.expiry_period_ns, Ev::ExpiryTick { max_age_ns: params.max_age_ns });
    at!(params.policy_period_ns, Ev::PolicyTick);
    at!(sched.range(0, horizon), Ev::Stats);
    // faults land inside the workload span, where there is in-flight state
    let span = t_send.max(S);
    if f.operator {
        at!(sched.range(span / 8, span), Ev::OperatorRemove);
    }
    if f.stalls {
        at!(sched.range(0, span), Ev::StallStart);
    }
    if f.crashes {
        at!(sched.range(span / 3, span), Ev::MinerCrash);
    }
    if f.partitions {
        at!(sched.range(0, span), Ev::PartitionStart);
    }
    if f.boundary_probes {
        for _ in 0..3 {
            at!(sched.range(0, span), Ev::BoundaryProbe);
        }
    }

    let mut now = 0u64;
    let mut stalled_until: Option<u64> = None;
    let mut stalled_q: Vec<Ev> = vec![];
    let mut partitioned = false;
    let mut settled: BTreeSet<[u64; 4]> = BTreeSet::new();
    let mut pending_settle: Vec<[u64; 4]> = vec![];
    let mut jobs: Vec<Job> = vec![];
    let mut done: Vec<bool> = vec![false; w.corpus_len()];
    let mut removed_returned: Vec<usize> = vec![]; // proofs handed back by remove_bucket (message ids are not corpus ids; we resubmit corpus proofs)
    let mut violation = None;
    let mut events = 0usize;
    let mut state_changing = false;

    macro_rules! step {
        ($s:expr) => {{
            let s: Step = $s;
            steps.push(s.clone());
            match exec.apply(&s) {
                Ok(o) => o,
                Err(v) => {
                    violation = Some(v);
                    break;
                }
            }
        }};
    }

    'main: while let Some(Reverse((t, _, idx))) = heap.pop() {
        if events >= params.max_events || t > horizon * 3 {
            break;
        }
        events += 1;
        now = now.max(t);
        let ev = evs[idx].clone();

        // a stalled miner queues what is addressed to it
        let to_miner = matches!(ev, Ev::Deliver { .. } | Ev::BlockImport { .. } | Ev::ExpiryTick { .. } | Ev::PolicyTick | Ev::JobDone { .. } | Ev::OperatorRemove | Ev::BoundaryProbe | Ev::Stats);
        if let Some(until) = stalled_until {
            if to_miner && now < until {
                stalled_q.push(ev);
                continue;
            }
        }
        let mut todo = vec![ev];
        while let Some(ev) = todo.pop() {
            match ev {
                Ev::ClientSend { client, proof, attempt } | Ev::Retry { client, proof, attempt } => {
                    if done[proof] {
                        continue;
                    }
                    // network: client -> miner
                    if partitioned || fr.chance(f.drop_pm, 1000) {
                        fired.inc(if partitioned { "msg_lost_partition" } else { "msg_dropped" });
                    } else {
                        let mutation = if fr.chance(f.byzantine_pm, 1000) {
                            fired.inc("byzantine_submission");
                            Some(random_mutation(w.pi_len(), &mut fr))
                        } else if fr.chance(f.corrupt_pm, 1000) {
                            fired.inc("msg_corrupted");
                            Some(random_mutation(w.pi_len(), &mut fr))
                        } else {
                            None
                        };
                        let d = 5 * MS + if f.jitter_ns > 0 { fr.range(0, f.jitter_ns) } else { 0 };
                        if f.jitter_ns > 0 {
                            fired.inc("msg_delayed");
                        }
                        at!(now + d, Ev::Deliver { client, proof, attempt, mutation: mutation.clone() });
                        if fr.chance(f.dup_pm, 1000) {
                            fired.inc("msg_duplicated");
                            at!(now + d + fr.range(0, 2 * d + MS), Ev::Deliver { client, proof, attempt, mutation: None });
                        }
                    }
                    // at-least-once: retransmit when no ack arrives
                    if attempt < 3 {
                        at!(now + 2 * S + f.jitter_ns * 2 + wl.range(0, wsched), Ev::Retry { client, proof, attempt: attempt + 1 });
                    }
                }
                Ev::Deliver { client, proof, mutation, .. } => {
                    let stall_ns = if f.verify_stall && fr.chance(1, 3) {
                        fired.inc("clock_advance_during_verify");
                        *fr.pick(&[15 * MS, S, wsched, wsched + 1])
                    } else {
                        0
                    };
                    let o = step!(Step::Push { t: now, proof, mutation: mutation.clone(), stall_ns });
                    now = now.max(crate::clock::now());
                    if let Outcome::Push { accepted, .. } = o {
                        state_changing |= accepted;
                        if partitioned || fr.chance(f.drop_pm, 1000) {
                            fired.inc("ack_lost");
                        } else {
                            at!(now + 5 * MS + if f.jitter_ns > 0 { fr.range(0, f.jitter_ns) } else { 0 }, Ev::Ack { client, proof, accepted });
                        }
                    }
                }
                Ev::Ack { proof, accepted, .. } => {
                    if accepted {
                        done[proof] = true;
                    }
                }
                Ev::BlockTick => {
                    // chain: include pending submissions and the rival miner's picks
                    let mut newly: Vec<[u64; 4]> = vec![];
                    for nf in pending_settle.drain(..) {
                        if settled.insert(nf) {
                            newly.push(nf);
                        } else {
                            fired.inc("stale_segment_at_chain");
                        }
                    }
                    if f.rival_pm > 0 {
                        for id in &params.world_proofs {
                            if fr.chance(f.rival_pm, 4000) {
                                for nf in w.nullifiers_of(*id) {
                                    if settled.insert(nf) {
                                        newly.push(nf);
                                        fired.inc("rival_settled_nullifier");
                                    }
                                }
                            }
                        }
                    }
                    if partitioned || fr.chance(f.drop_pm, 2000) {
                        fired.inc("block_import_lost");
                    } else {
                        let d = 20 * MS + if f.jitter_ns > 0 { fr.range(0, f.jitter_ns) } else { 0 };
                        at!(now + d, Ev::BlockImport { nullifiers: newly.clone() });
                        if fr.chance(f.dup_pm, 1000) {
                            fired.inc("block_import_duplicated");
                            at!(now + d + fr.range(0, S), Ev::BlockImport { nullifiers: newly });
                        }
                    }
                    at!(now + params.block_interval_ns, Ev::BlockTick);
                }
                Ev::BlockImport { nullifiers } => {
                    if let Outcome::Evicted(n) = step!(Step::EvictSettled { t: now, nullifiers }) {
                        state_changing |= n > 0;
                    }
                }
                Ev::ExpiryTick { max_age_ns } => {
                    if let Outcome::Evicted(n) = step!(Step::EvictOlder { t: now, max_age_ns }) {
                        state_changing |= n > 0;
                    }
                    if max_age_ns == params.max_age_ns {
                        at!(now + params.expiry_period_ns, Ev::ExpiryTick { max_age_ns });
                    }
                }
                Ev::PolicyTick => {
                    at!(now + params.policy_period_ns, Ev::PolicyTick);
                    let rows = match step!(Step::Stats { t: now }) {
                        Outcome::Stats(r) => r,
                        _ => vec![],
                    };
                    // operator policy: full bucket, or old enough; skip buckets with a submission plausibly in flight
                    let cand: Vec<_> = rows
                        .iter()
                        .filter(|r| (r.full || r.oldest_age_ns >= 2 * params.policy_period_ns) && r.last_snapshot_age_ns.map(|a| a >= params.reprove_timeout_ns).unwrap_or(true))
                        .collect();
                    // a policy loop working from a stale view (its bucket was settled, expired or removed meanwhile)
                    // asks for a key that is not pooled: the answer is None and the pool is unchanged
                    if sched.chance(1, 5) {
                        let keys = w.universe_keys();
                        let key = keys[sched.usize(keys.len())].clone();
                        if !rows.iter().any(|r| crate::exec::key_of(&key) == r.key) {
                            let _ = step!(Step::Snapshot { t: now, key });
                        }
                    }
                    if !cand.is_empty() {
                        let r = cand[sched.usize(cand.len())];
                        let key = w.universe_keys().into_iter().find(|k| crate::exec::key_of(k) == r.key);
                        if let Some(key) = key {
                            if let Outcome::Snapshot(Some(ids)) = step!(Step::Snapshot { t: now, key }) {
                                let mut nfs = vec![];
                                for id in ids {
                                    // message ids index exec.messages; take the nullifiers from the message itself
                                    let p = crate::model::parse_proof(&exec.messages[id], params.pool.n).unwrap();
                                    let _ = p;
                                    nfs.extend(crate::fake::pis_u64(&exec.messages[id])[wormhole_aggregator::private_batch::circuit::constants::aggregated_output::nullifiers_start(params.pool.n)..][..4 * params.pool.n].chunks(4).map(|c| [c[0], c[1], c[2], c[3]]));
                                }
                                jobs.push(Job { nullifiers: nfs });
                                at!(now + sched.range(10 * S, 40 * S), Ev::JobDone { job: jobs.len() - 1 });
                            }
                        }
                    }
                }
                Ev::JobDone { job } => {
                    if fr.chance(f.job_crash_pm, 1000) {
                        fired.inc("proving_job_crashed");
                    } else if fr.chance(f.submit_loss_pm, 1000) {
                        fired.inc("submission_lost");
                    } else {
                        pending_settle.extend(jobs[job].nullifiers.iter().copied());
                    }
                }
                Ev::OperatorRemove => {
                    let keys = w.universe_keys();
                    // mostly an existing bucket, sometimes an absent key
                    let live: Vec<KeyRepr> = keys.iter().copied().filter(|k| exec.model.buckets.contains_key(&crate::exec::key_of(k))).collect();
                    let key = if !live.is_empty() && sched.chance(3, 4) { live[sched.usize(live.len())] } else { keys[sched.usize(keys.len())] };
                    fired.inc("operator_remove_bucket");
                    if let Outcome::Removed(ids) = step!(Step::RemoveBucket { t: now, key }) {
                        state_changing |= !ids.is_empty();
                        removed_returned.extend(ids);
                    }
                    // the operator re-queues what it was handed back, later (readmission after removal)
                    for id in &params.world_proofs {
                        if w.key_of(*id) == key && sched.chance(1, 2) {
                            done[*id] = false;
                            at!(now + sched.range(S, 30 * S), Ev::ClientSend { client: 0, proof: *id, attempt: 2 });
                        }
                    }
                    if sched.chance(1, 2) {
                        at!(now + sched.range(S, horizon / 2 + S), Ev::OperatorRemove);
                    }
                }
                Ev::StallStart => {
                    let d = *fr.pick(&[2 * S, wsched, 3 * wsched, params.max_age_ns.min(3600 * S) + S]);
                    stalled_until = Some(now + d);
                    fired.inc("miner_stalled");
                    at!(now + d, Ev::StallEnd);
                }
                Ev::StallEnd => {
                    stalled_until = None;
                    // the clock has jumped; the queue drains in arrival order
                    let q = std::mem::take(&mut stalled_q);
                    for e in q.into_iter().rev() {
                        todo.push(e);
                    }
                }
                Ev::MinerCrash => {
                    fired.inc("miner_crash_restart");
                    let _ = step!(Step::NewPool { t: now });
                    stalled_q.clear();
                    stalled_until = None;
                    // clients whose proofs were acknowledged learn nothing; some resubmit (readmission after restart)
                    for id in &params.world_proofs {
                        if done[*id] && sched.chance(1, 2) {
                            done[*id] = false;
                            at!(now + sched.range(S, 20 * S), Ev::ClientSend { client: 0, proof: *id, attempt: 1 });
                        }
                    }
                }
                Ev::PartitionStart => {
                    partitioned = true;
                    fired.inc("partition");
                    at!(now + fr.range(S, 30 * S), Ev::PartitionEnd);
                }
                Ev::PartitionEnd => {
                    partitioned = false;
                    fired.inc("partition_healed");
                }
                Ev::BoundaryProbe => {
                    // aim pushes and expiries at exact boundaries of the pool's own window / a pooled proof's age
                    fired.inc("boundary_probe");
                    let ws = exec.model.window_start;
                    let wn = wsched;
                    let pick = |r: &mut Rng| params.world_proofs[r.usize(params.world_proofs.len())];
                    for dt in [wn - 1, wn, wn + 1] {
                        if ws + dt > now {
                            let burst = fr.range(1, 1 + params.pool.max_verifies.min(9) as u64);
                            for b in 0..burst {
                                let mutation = if fr.chance(1, 2) { Some(Mutation::FlipPi { idx: fr.usize(w.pi_len()) }) } else { None };
                                // several arrivals at the same instant: ordered by sequence number
                                let _ = b;
                                at!(ws + dt, Ev::Deliver { client: 0, proof: pick(&mut fr), attempt: 9, mutation });
                            }
                        }
                    }
                    let ages: Vec<u64> = exec.model.buckets.values().flat_map(|b| b.entries.iter().map(|e| e.admitted)).collect();
                    if !ages.is_empty() {
                        // half of the time aim at a PARTIAL expiry of the deepest bucket that leaves at
                        // least two survivors behind (order and index of the survivors are then observable)
                        let deepest = exec.model.buckets.values().max_by_key(|b| b.entries.len());
                        let aimed = match deepest {
                            Some(b) if b.entries.len() >= 3 && fr.chance(1, 2) => Some(b.entries[fr.usize(b.entries.len() - 2)].admitted),
                            _ => None,
                        };
                        let adm = aimed.unwrap_or_else(|| ages[fr.usize(ages.len())]);
                        let age = *fr.pick(&[params.max_age_ns, 20 * S, 5 * S]);
                        for dt in [age.saturating_sub(1), age, age + 1] {
                            if adm + dt > now {
                                at!(adm + dt, Ev::ExpiryTick { max_age_ns: age });
                            }
                        }
                    }
                }
                Ev::Stats => {
                    let _ = step!(Step::Stats { t: now });
                    // operator's own expiry policy, aimed: cut the deepest bucket just behind one of its
                    // older entries so that at least two newer ones survive (strict '>' keeps the pivot)
                    let pivot = exec.model.buckets.values().max_by_key(|b| b.entries.len()).filter(|b| b.entries.len() >= 3).map(|b| b.entries[1 + sched.usize(b.entries.len() - 2)].admitted);
                    // boundary settings of the expiry call: "never expire" (Duration::MAX) must evict nothing,
                    // a zero cutoff evicts exactly what is strictly older than now
                    if sched.chance(1, 6) {
                        let age = if sched.chance(2, 3) { u64::MAX } else { 0 };
                        if let Outcome::Evicted(n) = step!(Step::EvictOlder { t: now, max_age_ns: age }) {
                            state_changing |= n > 0;
                        }
                    }
                    if let Some(adm) = pivot {
                        if sched.chance(1, 2) && adm != u64::MAX && now > adm {
                            if let Outcome::Evicted(n) = step!(Step::EvictOlder { t: now, max_age_ns: now - adm }) {
                                state_changing |= n > 0;
                            }
                        }
                    }
                    at!(now + sched.range(S, horizon / 3 + S), Ev::Stats);
                }
            }
            if violation.is_some() {
                break;
            }
        }
        if violation.is_some() {
            break 'main;
        }
    }
    if violation.is_none() {
        if let Err(v) = exec.finish() {
            violation = Some(v);
        }
    } else {
        let _ = exec.finish();
    }
    let cost = exec.all_pushes.iter().map(|p| (p.decision, p.cpu_ns)).collect();
    let _ = removed_returned;
    RunOutput {
        params,
        steps,
        violation,
        probes: exec.probes.clone(),
        faults_fired: fired,
        foreign: exec.foreign.clone(),
        states: exec.states.iter().copied().collect(),
        triples: exec.triples.iter().copied().collect(),
        sim_time_ns: now,
        events,
        cost,
        log: std::mem::take(&mut exec.log),
        state_changing,
    }
}

/// Replay a recorded step list (no service simulation around it).
pub fn replay<B: Backend>(be: &mut B, pool: &PoolParams, steps: &[Step], keep_log: bool) -> (Option<Violation>, Vec<String>, Counters) {
    let t0 = steps.first().map(|s| s.t()).unwrap_or(0);
    let mut exec = Exec::new(be, pool.clone(), t0);
    exec.keep_log = keep_log;
    let mut violation = None;
    for s in steps.iter().skip(if matches!(steps.first(), Some(Step::NewPool { .. })) { 1 } else { 0 }) {
        if let Err(v) = exec.apply(s) {
            violation = Some(v);
            break;
        }
    }
    let fin = exec.finish();
    if violation.is_none() {
        violation = fin.err();
    }
    (violation, std::mem::take(&mut exec.log), exec.probes.clone())
}
