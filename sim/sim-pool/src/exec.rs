//! Executor: applies pool-boundary steps to the real pool under the virtual
//! clock, keeps the reference model in lock-step and evaluates every oracle
//! after every operation. Used both by the service simulation (which decides
//! the next step from the outcomes) and by replay/minimisation (which feeds a
//! recorded step list).
use crate::clock;
use crate::fake::{pis_u64, Mutation, Proof};
use crate::model::{self, Decision, Limits, MBucket, MEntry, Model};
use plonky2::field::types::Field;
use plonky2::plonk::circuit_data::VerifierCircuitData;
use qpz_core::evidence::Counters;
use serde::{Deserialize, Serialize};
use std::cell::Cell;
use std::collections::{BTreeMap, BTreeSet, HashMap, HashSet};
use std::rc::Rc;
use std::time::{Duration, Instant};
use wormhole_aggregator::pool::{BatchKey, PoolLimits, ProofPool, VerifPoolDump};
use wormhole_aggregator::verif_hooks;
use wormhole_inputs::BytesDigest;
use zk_circuits_common::circuit::{C, D, F};
use zk_circuits_common::utils::try_4_felts_to_bytes;

pub type KeyRepr = ([u64; 4], u64, u64);

/// `u64::MAX` nanoseconds stands for `Duration::MAX` ("never"), every other value for itself.
pub fn ns_or_max(ns: u64) -> Duration {
    if ns == u64::MAX {
        Duration::MAX
    } else {
        Duration::from_nanos(ns)
    }
}

pub fn digest4(v: &[u64; 4]) -> BytesDigest {
    let f: Vec<F> = v.iter().map(|x| F::from_canonical_u64(*x)).collect();
    try_4_felts_to_bytes(&f).unwrap()
}
pub fn key_of(k: &KeyRepr) -> BatchKey {
    BatchKey { block_hash: digest4(&k.0), asset_id: k.1, volume_fee_bps: k.2 }
}

#[derive(Clone, Debug, Serialize, Deserialize)]
pub struct PoolParams {
    pub n: usize,
    pub batch: usize,
    pub max_proofs: usize,
    pub max_buckets: usize,
    pub max_verifies: usize,
    pub window_ns: u64,
}

impl PoolParams {
    pub fn limits(&self) -> Limits {
        Limits {
            max_proofs: self.max_proofs,
            max_buckets: self.max_buckets,
            max_verifies: self.max_verifies,
            window_ns: self.window_ns,
        }
    }
    pub fn pool_limits(&self) -> PoolLimits {
        PoolLimits {
            max_proofs: self.max_proofs,
            max_buckets: self.max_buckets,
            max_verifies_per_window: self.max_verifies,
            verify_window: ns_or_max(self.window_ns),
        }
    }
}

/// One operation at the pool boundary with its absolute virtual time.
#[derive(Clone, Debug, Serialize, Deserialize)]
#[serde(tag = "op", rename_all = "snake_case")]
pub enum Step {
    /// (re)start of the miner: a fresh, empty pool
    NewPool { t: u64 },
    Push {
        t: u64,
        proof: usize,
        #[serde(default, skip_serializing_if = "Option::is_none")]
        mutation: Option<Mutation>,
        /// virtual time that passes while the proof is being verified
        #[serde(default)]
        stall_ns: u64,
    },
    EvictSettled { t: u64, nullifiers: Vec<[u64; 4]> },
    EvictOlder { t: u64, max_age_ns: u64 },
    Snapshot { t: u64, key: KeyRepr },
    RemoveBucket { t: u64, key: KeyRepr },
    Stats { t: u64 },
}

impl Step {
    pub fn t(&self) -> u64 {
        match self {
            Step::NewPool { t }
            | Step::Push { t, .. }
            | Step::EvictSettled { t, .. }
            | Step::EvictOlder { t, .. }
            | Step::Snapshot { t, .. }
            | Step::RemoveBucket { t, .. }
            | Step::Stats { t } => *t,
        }
    }
    pub fn name(&self) -> &'static str {
        match self {
            Step::NewPool { .. } => "new_pool",
            Step::Push { .. } => "push",
            Step::EvictSettled { .. } => "evict_settled",
            Step::EvictOlder { .. } => "evict_older",
            Step::Snapshot { .. } => "snapshot",
            Step::RemoveBucket { .. } => "remove_bucket",
            Step::Stats { .. } => "stats",
        }
    }
}

/// Class prefix of the property the running check decides ("admit:", "inv:", "custody:", "budget:").
/// Findings of OTHER properties' oracles do not end a run: they are counted and the run goes on, so that
/// each check reports its own property's violation even when another oracle fires first. Empty = stop
/// at any finding.
pub static FOCUS_PREFIX: std::sync::OnceLock<String> = std::sync::OnceLock::new();

/// Everything the oracles found wrong at one step. Several oracles are
/// evaluated at every step; each finding's class prefix names the property it
/// belongs to (admit: C19, inv: C20, custody: C21, budget: C22).
#[derive(Clone, Debug, Serialize, Deserialize)]
pub struct Violation {
    pub at_step: usize,
    /// (class, detail)
    pub findings: Vec<(String, String)>,
}

impl Violation {
    /// First finding whose class belongs to `prefix`.
    pub fn for_prefix(&self, prefix: &str) -> Option<&(String, String)> {
        self.findings.iter().find(|(c, _)| c.starts_with(prefix))
    }
    pub fn classes(&self) -> Vec<String> {
        self.findings.iter().map(|(c, _)| c.clone()).collect()
    }
}

/// Run one pool call; a panic inside the component under test is a finding of the property the
/// operation belongs to (the pool API returns errors, it does not unwind), never a harness crash.
fn guarded<T>(f: impl FnOnce() -> T) -> Result<T, String> {
    std::panic::catch_unwind(std::panic::AssertUnwindSafe(f)).map_err(|e| e.downcast_ref::<String>().cloned().or_else(|| e.downcast_ref::<&str>().map(|s| s.to_string())).unwrap_or_else(|| "panic".into()))
}

fn viol(class: &str, at: usize, detail: String) -> Violation {
    Violation { at_step: at, findings: vec![(class.into(), detail)] }
}

/// What the service simulation learns from a step.
#[derive(Clone, Debug)]
pub enum Outcome {
    None,
    Push { accepted: bool, decision: Decision },
    Evicted(usize),
    Snapshot(Option<Vec<usize>>),
    Removed(Vec<usize>),
    Stats(Vec<StatRow>),
    Dropped,
}

#[derive(Clone, Debug)]
pub struct StatRow {
    pub key: BatchKey,
    pub num: usize,
    pub oldest_age_ns: u64,
    pub last_snapshot_age_ns: Option<u64>,
    pub full: bool,
}

/// The component under test, behind the operations the property names.
pub trait Backend {
    fn restart(&mut self, params: &PoolParams);
    fn push(&mut self, p: Proof) -> anyhow::Result<BatchKey>;
    fn evict_settled(&mut self, s: &HashSet<BytesDigest>) -> usize;
    fn evict_older_than(&mut self, d: Duration) -> usize;
    fn snapshot(&mut self, k: &BatchKey) -> Option<Vec<Proof>>;
    fn remove_bucket(&mut self, k: &BatchKey) -> Vec<Proof>;
    fn pool(&self) -> &ProofPool;
    fn verifier(&self) -> &VerifierCircuitData<F, C, D>;
    /// corpus proof by id
    fn corpus(&self, id: usize) -> &Proof;
    fn mutate(&self, p: &Proof, m: &Mutation) -> Option<Proof>;
    /// cached ground truth for unmutated corpus proofs
    fn corpus_valid(&self, id: usize) -> bool;
}

#[derive(Clone, Debug)]
pub struct PushRecord {
    pub t_call: u64,
    pub verifies: u64,
    pub window_start_after: u64,
    pub decision: Decision,
    pub cpu_ns: u64,
}

pub struct Exec<'a, B: Backend> {
    pub be: &'a mut B,
    pub params: PoolParams,
    pub model: Model,
    /// every message ever pushed (entries refer to these)
    pub messages: Vec<Proof>,
    base: Instant,
    verify_count: Rc<Cell<u64>>,
    stall: Rc<Cell<u64>>,
    pub step_no: usize,
    /// pushes of the current pool epoch (since the last restart)
    pub pushes: Vec<PushRecord>,
    pub all_pushes: Vec<PushRecord>,
    pub probes: Counters,
    /// findings of other properties' oracles that did not end the run
    pub foreign: Counters,
    pub states: HashSet<u64>,
    pub triples: HashSet<u64>,
    /// event log lines (deterministic), for the determinism self-test
    pub log: Vec<String>,
    pub keep_log: bool,
}

fn ns(i: Instant, base: Instant) -> u64 {
    i.duration_since(base).as_nanos() as u64
}

impl<'a, B: Backend> Exec<'a, B> {
    pub fn new(be: &'a mut B, params: PoolParams, t0: u64) -> Self {
        clock::set(0);
        let base = Instant::now();
        clock::set(t0);
        be.restart(&params);
        let verify_count = Rc::new(Cell::new(0u64));
        let stall = Rc::new(Cell::new(0u64));
        let (vc, st) = (verify_count.clone(), stall.clone());
        verif_hooks::set_verify_observer(Some(Box::new(move || {
            vc.set(vc.get() + 1);
            // virtual time passing during verification
            clock::advance(st.get());
        })));
        let model = Model::new(params.n, params.batch, params.limits(), t0);
        Exec {
            be,
            params,
            model,
            messages: vec![],
            base,
            verify_count,
            stall,
            step_no: 0,
            pushes: vec![],
            all_pushes: vec![],
            probes: Counters::default(),
            foreign: Counters::default(),
            states: HashSet::new(),
            triples: HashSet::new(),
            log: vec![],
            keep_log: false,
        }
    }

    /// End of run: history-level oracle, then leave simulation.
    pub fn finish(&mut self) -> Result<(), Violation> {
        verif_hooks::set_verify_observer(None);
        clock::leave();
        let r = self.check_budget_history(&self.pushes, self.params.max_verifies, self.params.window_ns);
        let mut p = std::mem::take(&mut self.pushes);
        self.all_pushes.append(&mut p);
        r
    }

    fn state_hash(&self, now: u64) -> u64 {
        let mut s = String::new();
        for (k, b) in &self.model.buckets {
            s.push_str(&format!("{:?}|{}|{}[", k.block_hash.as_ref(), k.asset_id, k.volume_fee_bps));
            for e in &b.entries {
                let mut nf: Vec<_> = e.parsed.nullifiers.iter().map(|n| n.as_ref().to_vec()).collect();
                nf.sort();
                s.push_str(&format!("{:?};", nf));
            }
            s.push_str(&format!("]{}", b.last_snapshot.is_some()));
        }
        s.push_str(&format!("#{}#{}", self.model.verifies, self.model.window_elapsed(now)));
        qpz_core::rng::hash_str(&s)
    }

    /// Apply one step; `Err` carries the first oracle violation.
    pub fn apply(&mut self, step: &Step) -> Result<Outcome, Violation> {
        let at = self.step_no;
        self.step_no += 1;
        let t = step.t().max(clock::now());
        clock::set(t);
        let pre_class = format!(
            "{}:{}:{}",
            self.model.len() >= self.model.limits.max_proofs,
            self.model.buckets.len() >= self.model.limits.max_buckets,
            self.model.verifies >= self.model.limits.max_verifies
        );
        let mut findings: Vec<(String, String)> = vec![];
        let out = match step {
            Step::NewPool { .. } => {
                if let Err(v) = self.check_budget_history(&self.pushes, self.params.max_verifies, self.params.window_ns) {
                    findings.extend(v.findings);
                }
                self.all_pushes.append(&mut self.pushes);
                self.be.restart(&self.params);
                self.model = Model::new(self.params.n, self.params.batch, self.params.limits(), t);
                self.probes.inc("miner_restart");
                Outcome::None
            }
            Step::Push { proof, mutation, stall_ns, .. } => self.do_push(&mut findings, t, *proof, mutation.as_ref(), *stall_ns),
            Step::EvictSettled { nullifiers, .. } => {
                let set: BTreeSet<BytesDigest> = nullifiers.iter().map(digest4).collect();
                let targets = self.model.settled_targets(&set);
                let buckets_before = self.model.buckets.len();
                let hs: HashSet<BytesDigest> = set.iter().copied().collect();
                let got = match guarded(|| self.be.evict_settled(&hs)) {
                    Ok(v) => v,
                    Err(m) => return Err(viol("custody:evict-settled-panicked", at, format!("evict_settled panicked: {m}"))),
                };
                self.model.remove(&targets);
                if targets.iter().any(|(k, _)| self.model.buckets.get(k).map(|b| b.entries.len() >= 2).unwrap_or(false)) {
                    self.probes.inc("settlement_partial_with_two_or_more_survivors");
                }
                if got != targets.len() {
                    findings.push(("custody:evict-settled-count".into(), format!("returned {got}, {} proofs carry a settled nullifier", targets.len())));
                }
                if !targets.is_empty() {
                    self.probes.inc("settlement_evicted_some");
                }
                if self.model.buckets.len() < buckets_before {
                    self.probes.inc("eviction_emptied_bucket");
                }
                if targets.iter().map(|(k, _)| *k).collect::<BTreeSet<_>>().len() > 1 {
                    self.probes.inc("settlement_hit_several_buckets");
                }
                Outcome::Evicted(got)
            }
            Step::EvictOlder { max_age_ns, .. } => {
                let targets = self.model.expired_targets(t, *max_age_ns);
                if self.model.buckets.values().flat_map(|b| b.entries.iter()).any(|e| t.saturating_sub(e.admitted) == *max_age_ns) {
                    self.probes.inc("expiry_at_exact_boundary");
                }
                let buckets_before = self.model.buckets.len();
                if *max_age_ns == u64::MAX {
                    self.probes.inc("expiry_with_duration_max");
                }
                let age = ns_or_max(*max_age_ns);
                let got = match guarded(|| self.be.evict_older_than(age)) {
                    Ok(v) => v,
                    Err(m) => return Err(viol("custody:evict-older-panicked", at, format!("evict_older_than({age:?}) panicked: {m}"))),
                };
                self.model.remove(&targets);
                if targets.iter().any(|(k, _)| self.model.buckets.get(k).map(|b| b.entries.len() >= 2).unwrap_or(false)) {
                    self.probes.inc("expiry_partial_with_two_or_more_survivors");
                }
                if got != targets.len() {
                    findings.push(("custody:evict-older-count".into(), format!("returned {got}, {} proofs are older than the cutoff", targets.len())));
                }
                if !targets.is_empty() {
                    self.probes.inc("expiry_evicted_some");
                }
                if self.model.buckets.len() < buckets_before {
                    self.probes.inc("eviction_emptied_bucket");
                }
                Outcome::Evicted(got)
            }
            Step::Snapshot { key, .. } => {
                let k = key_of(key);
                let expect: Option<Vec<usize>> = self.model.buckets.get(&k).map(|b| {
                    b.entries.iter().take(self.model.batch).map(|e| e.msg).collect()
                });
                let got = match guarded(|| self.be.snapshot(&k)) {
                    Ok(v) => v,
                    Err(m) => return Err(viol("custody:snapshot-panicked", at, format!("snapshot_batch panicked: {m}"))),
                };
                match (&expect, &got) {
                    (None, None) => {
                        self.probes.inc("snapshot_absent_key");
                    }
                    (Some(ids), Some(proofs)) => {
                        if ids.len() != proofs.len() || ids.iter().zip(proofs).any(|(i, p)| &self.messages[*i] != p) {
                            findings.push(("custody:snapshot-content".into(), format!("snapshot returned {} proofs, expected the oldest {} of the bucket in admission order", proofs.len(), ids.len())));
                        }
                        let b = self.model.buckets.get_mut(&k).unwrap();
                        if b.last_snapshot.is_some() {
                            self.probes.inc("resnapshot_same_bucket");
                        }
                        if b.entries.len() > self.model.batch {
                            self.probes.inc("bucket_deeper_than_batch");
                        }
                        b.last_snapshot = Some(t);
                        // the snapshot must be a batch the public-batch preflight accepts
                        clock::leave();
                        let pre = wormhole_aggregator::public_batch::prover::lib::verif_preflight(proofs, self.model.batch, self.be.verifier());
                        clock::set(t);
                        if let Err(e) = pre {
                            findings.push(("custody:snapshot-preflight".into(), format!("preflight rejected a snapshot of {} proofs: {e:#}", proofs.len())));
                        }
                        self.probes.inc("snapshot_preflight_ok");
                    }
                    (None, Some(p)) => findings.push(("custody:snapshot-content".into(), format!("snapshot of an absent bucket returned {} proofs", p.len()))),
                    (Some(ids), None) => findings.push(("custody:snapshot-content".into(), format!("snapshot of a bucket with {} proofs returned nothing", ids.len()))),
                }
                Outcome::Snapshot(expect)
            }
            Step::RemoveBucket { key, .. } => {
                let k = key_of(key);
                let expect: Vec<usize> = self.model.buckets.get(&k).map(|b| b.entries.iter().map(|e| e.msg).collect()).unwrap_or_default();
                let got = match guarded(|| self.be.remove_bucket(&k)) {
                    Ok(v) => v,
                    Err(m) => return Err(viol("custody:remove-bucket-panicked", at, format!("remove_bucket panicked: {m}"))),
                };
                self.model.buckets.remove(&k);
                if expect.len() != got.len() || expect.iter().zip(&got).any(|(i, p)| &self.messages[*i] != p) {
                    findings.push(("custody:remove-bucket-return".into(), format!("remove_bucket returned {} proofs, bucket held {}", got.len(), expect.len())));
                }
                if expect.is_empty() {
                    self.probes.inc("remove_absent_bucket");
                } else {
                    self.probes.inc("remove_bucket_some");
                }
                Outcome::Removed(expect)
            }
            Step::Stats { .. } => Outcome::None,
        };

        // ---- after every operation ----
        let after = clock::now();
        if let Err(v) = self.check_state(at, step, &out, t, after) {
            findings.extend(v.findings);
        }
        let stats = match self.check_invariants(at) {
            Ok(rows) => rows,
            Err(v) => {
                findings.extend(v.findings);
                vec![]
            }
        };
        if !findings.is_empty() {
            let focus = FOCUS_PREFIX.get().map(|s| s.as_str()).unwrap_or("");
            if focus.is_empty() || findings.iter().any(|(c, _)| c.starts_with(focus)) {
                return Err(Violation { at_step: at, findings });
            }
            for (c, _) in &findings {
                self.foreign.inc(c);
            }
            // Another property's oracle fired. From here on this check must judge ITS property against the
            // pool as it actually is, not against a reference that has drifted away from it (otherwise every
            // later step would be blamed for the first divergence): the model takes over the implementation's
            // contents, order, admission times, snapshot marks and budget state.
            self.resync_model_from_dump();
        }
        let out = if let Step::Stats { .. } = step { Outcome::Stats(stats) } else { out };

        self.states.insert(self.state_hash(after));
        let oc = match &out {
            Outcome::Push { decision, .. } => decision.name().to_string(),
            Outcome::Evicted(n) => format!("evicted{}", (*n).min(3)),
            Outcome::Snapshot(s) => format!("snap{}", s.as_ref().map(|v| v.len() as i64).unwrap_or(-1)),
            Outcome::Removed(v) => format!("removed{}", v.len().min(3)),
            _ => "-".into(),
        };
        self.triples.insert(qpz_core::rng::hash_str(&format!("{}|{}|{}", step.name(), oc, pre_class)));
        self.probes.inc(&format!("op_{}", step.name()));
        if self.keep_log {
            self.log.push(format!("{at} t={t} {} -> {oc} len={} buckets={} verifies={} ws={}", step.name(), self.model.len(), self.model.buckets.len(), self.model.verifies, self.model.window_start));
        }
        Ok(out)
    }

    fn do_push(&mut self, findings: &mut Vec<(String, String)>, t: u64, proof: usize, mutation: Option<&Mutation>, stall_ns: u64) -> Outcome {
        let base_proof = self.be.corpus(proof).clone();
        let msg = match mutation {
            None => base_proof,
            Some(m) => match self.be.mutate(&base_proof, m) {
                Some(p) => p,
                None => {
                    self.probes.inc("msg_undeserialisable_dropped");
                    return Outcome::Dropped;
                }
            },
        };
        let pis = pis_u64(&msg);
        // ground truth of verification: the verifier on the exact message delivered
        let be: &B = self.be;
        let mut truth = || -> bool {
            if mutation.is_none() {
                return be.corpus_valid(proof);
            }
            clock::leave();
            let ok = std::panic::catch_unwind(std::panic::AssertUnwindSafe(|| be.verifier().verify(msg.clone()).is_ok())).unwrap_or(false);
            clock::set(t);
            ok
        };
        let (decision, parsed) = self.model.decide(&pis, t, &mut truth);

        let elapsed = self.model.window_elapsed(t);
        let v0 = self.verify_count.get();
        self.stall.set(stall_ns);
        let cpu0 = qpz_core::thread_cpu_ns();
        let res = match guarded(|| self.be.push(msg.clone())) {
            Ok(r) => r,
            Err(m) => {
                self.stall.set(0);
                findings.push(("admit:push-panicked".into(), format!("push panicked instead of returning (the rules give {:?}): {m}", decision)));
                return Outcome::Dropped;
            }
        };
        let cpu = qpz_core::thread_cpu_ns() - cpu0;
        self.stall.set(0);
        let t_ret = clock::now();
        let dv = self.verify_count.get() - v0;

        // --- model update for the budget state ---
        let dump = self.be.pool().verif_dump();
        let d_ws = ns(dump.verify_window_started, self.base);
        let d_cnt = dump.verifies_in_window;
        drop(dump);
        let prev_ws = self.model.window_start;
        let prev_cnt = self.model.verifies;
        let in_span = d_ws >= t && d_ws <= t_ret;
        // C22 transition check, stated on what was observed (verifier calls,
        // budget state before and after), independent of the admission rules:
        // the counter moves by exactly the number of verifications performed,
        // and a new window begins only at a push at least one full window
        // after the previous start.
        let restarted = d_ws != prev_ws;
        if restarted {
            if !elapsed {
                findings.push(("budget:early-restart".into(), format!("window restarted at {t} although it began at {prev_ws} and lasts {}", self.model.limits.window_ns)));
            } else if !in_span {
                findings.push(("budget:restart-instant".into(), format!("new window start {d_ws} lies outside the push's span [{t}, {t_ret}]")));
            }
            if d_cnt as u64 != dv {
                findings.push(("budget:counter-state".into(), format!("after a window restart the counter is {d_cnt}, the push performed {dv} verifications")));
            }
        } else {
            if d_cnt as u64 != prev_cnt as u64 + dv {
                findings.push(("budget:counter-state".into(), format!("counter went from {prev_cnt} to {d_cnt} at a push that performed {dv} verifications")));
            }
            // the documented fixed window restarts AT the first push that gets as far as the budget
            // test once a full window has elapsed; a counter carried past that instant decides later
            // pushes against a budget that no longer exists
            if elapsed && decision.reaches_budget() {
                findings.push(("budget:no-restart-after-full-window".into(), format!("a push at {t} got as far as the budget test {} ns after the window start {prev_ws} (window {} ns), yet the window was not restarted (counter {prev_cnt} -> {d_cnt})", t - prev_ws, self.model.limits.window_ns)));
            }
        }
        // The model keeps ITS OWN budget state by the documented fixed-window rules; from the
        // implementation it takes only what the rules leave open: the instant inside the push's span at
        // which a due restart happens. (It used to adopt the implementation's window start and counter
        // after checking each transition, which made every later admission decision follow a wrong
        // counter instead of contradicting it.)
        if restarted && elapsed && in_span {
            self.model.window_start = d_ws;
            self.model.verifies = 0;
        } else if elapsed && decision.reaches_budget() {
            self.model.window_start = t;
            self.model.verifies = 0;
        }
        if decision.reaches_verify() {
            self.model.verifies += 1;
        }
        if restarted {
            self.probes.inc("window_restart");
            if t - prev_ws == self.model.limits.window_ns {
                self.probes.inc("window_restart_exactly_at_boundary");
            }
        } else if decision.reaches_budget() && t.saturating_sub(prev_ws) + 1 == self.model.limits.window_ns {
            self.probes.inc("push_1ns_before_window_boundary");
        }

        self.pushes.push(PushRecord { t_call: t, verifies: dv, window_start_after: d_ws, decision, cpu_ns: cpu });
        self.probes.inc(&format!("push_{}", decision.name()));
        if stall_ns > 0 && dv > 0 {
            self.probes.inc("clock_advanced_during_verification");
        }

        // --- O-verify: how many verifier calls this push made ---
        let expect_dv = if decision.reaches_verify() { 1 } else { 0 };
        let accepted = res.is_ok();
        if dv != expect_dv {
            let what = format!("push decided {:?} by the documented rules performed {dv} verifications, expected {expect_dv}", decision);
            if dv > expect_dv {
                match decision {
                    Decision::Budget => findings.push(("budget:verified-with-exhausted-budget".into(), what)),
                    Decision::Full | Decision::Shape | Decision::Dummy => findings.push(("admit:verified-before-stateless-rejection".into(), what)),
                    _ => findings.push(("budget:more-verifications-than-charged".into(), what)),
                }
            } else {
                // No verification although the rules reach it. Either the
                // implementation believes the budget is exhausted (no charge, no
                // restart: a disagreement about the window, C22's business), or
                // a pool-state test answered before verification (C19).
                let impl_budget_exhausted = d_cnt >= self.model.limits.max_verifies && d_ws == prev_ws && !accepted && elapsed && !matches!(decision, Decision::BucketCap | Decision::Duplicate);
                if impl_budget_exhausted {
                    findings.push(("budget:no-restart-after-full-window".into(), format!("{what}: the pool still reports an exhausted budget for the window starting at {prev_ws} at time {t}")));
                } else if accepted {
                    findings.push(("admit:admitted-without-verification".into(), what));
                } else {
                    findings.push(("admit:state-rejection-without-verification".into(), what));
                }
            }
        }
        // --- O-result ---
        if accepted != (decision == Decision::Admit) {
            findings.push(("admit:result".into(), format!("push returned {} but the documented rules give {:?}{}", if accepted { "Ok" } else { "Err" }, decision, res.as_ref().err().map(|e| format!(" (error: {e:#})")).unwrap_or_default())));
        }
        if let (Ok(k), Some(p)) = (&res, &parsed) {
            if *k != p.key {
                findings.push(("admit:key".into(), format!("push returned key {:?}, proof's own key is {:?}", k, p.key)));
            }
        }
        if decision == Decision::Admit {
            let parsed = parsed.unwrap();
            let id = self.messages.len();
            self.messages.push(msg);
            if self.messages[..id].iter().any(|m| m == &self.messages[id]) {
                self.probes.inc("readmission_of_previously_pooled_proof");
            }
            let b = self.model.buckets.entry(parsed.key).or_insert_with(MBucket::default);
            // admission instant: learned from the dump inside [t, t_ret] by check_state
            b.entries.push(MEntry { msg: id, parsed, admitted: u64::MAX });
        } else if decision == Decision::Duplicate {
            let p = parsed.as_ref().unwrap();
            let idx = self.model.indexed();
            if p.nullifiers.iter().any(|n| idx.get(n).map(|k| *k != p.key).unwrap_or(false)) {
                self.probes.inc("duplicate_valid_proof_other_bucket");
            } else {
                self.probes.inc("duplicate_valid_proof_same_bucket");
            }
        } else if decision == Decision::BucketCap {
            self.probes.inc("bucket_limit_rejects_valid_proof");
        }
        Outcome::Push { accepted, decision }
    }

    fn resync_model_from_dump(&mut self) {
        let dump = self.be.pool().verif_dump();
        let mut buckets: BTreeMap<BatchKey, MBucket> = BTreeMap::new();
        for db in dump.buckets.iter().filter(|b| !b.entries.is_empty()) {
            let mut mb = MBucket { entries: vec![], last_snapshot: db.last_snapshot_at.map(|i| ns(i, self.base)) };
            for de in &db.entries {
                let Some(parsed) = model::parse_proof(de.proof, self.params.n) else { continue };
                let msg = match self.messages.iter().position(|m| m == de.proof) {
                    Some(i) => i,
                    None => {
                        self.messages.push(de.proof.clone());
                        self.messages.len() - 1
                    }
                };
                mb.entries.push(MEntry { msg, parsed, admitted: ns(de.admitted_at, self.base) });
            }
            if !mb.entries.is_empty() {
                buckets.insert(db.key, mb);
            }
        }
        self.model.buckets = buckets;
        // "budget remains" is one of C19's admission rules, so the admission check keeps its own window
        // state by the documented rules; the other checks take over the implementation's
        if FOCUS_PREFIX.get().map(|s| s.as_str()) != Some("admit:") {
            self.model.window_start = ns(dump.verify_window_started, self.base);
            self.model.verifies = dump.verifies_in_window;
        }
        self.probes.inc("model_resynced_after_another_propertys_finding");
    }

    /// O-state / O-custody: the dump equals the model.
    fn check_state(&mut self, at: usize, step: &Step, out: &Outcome, t_call: u64, t_ret: u64) -> Result<(), Violation> {
        let dump = self.be.pool().verif_dump();
        let is_push = matches!(step, Step::Push { .. });
        let rejected_push = matches!(out, Outcome::Push { accepted: false, .. } | Outcome::Dropped);
        let content_class = if is_push {
            if rejected_push { "admit:rejected-push-changed-pool" } else { "admit:state-after-admission" }
        } else {
            match step {
                Step::EvictSettled { .. } => "custody:evict-settled-targets",
                Step::EvictOlder { .. } => "custody:evict-older-targets",
                Step::RemoveBucket { .. } => "custody:remove-bucket-targets",
                Step::Snapshot { .. } => "custody:snapshot-changed-pool",
                Step::NewPool { .. } => "custody:restart",
                Step::Stats { .. } => "custody:stats-changed-pool",
                Step::Push { .. } => unreachable!(),
            }
        };
        // contents
        let base = self.base;
        let messages = &self.messages;
        let model = &mut self.model;
        let content_finding: Option<Violation> = (|| {
            let model_keys: Vec<BatchKey> = model.buckets.keys().copied().collect();
            // an empty bucket that is still retained is C20's finding (inv:empty-bucket), not a custody one
            let dump_keys: Vec<BatchKey> = dump.buckets.iter().filter(|b| !b.entries.is_empty()).map(|b| b.key).collect();
            if model_keys != dump_keys {
                return Some(viol(content_class, at, format!("bucket keys differ: pool has {} buckets, rules give {}", dump_keys.len(), model_keys.len())));
            }
            for db in dump.buckets.iter().filter(|b| !b.entries.is_empty()) {
                let mb = model.buckets.get_mut(&db.key).unwrap();
                if mb.entries.len() != db.entries.len() {
                    return Some(viol(content_class, at, format!("bucket holds {} proofs, rules give {}", db.entries.len(), mb.entries.len())));
                }
                for (me, de) in mb.entries.iter_mut().zip(&db.entries) {
                    if &messages[me.msg] != de.proof {
                        return Some(viol(content_class, at, "bucket holds a different proof (or order) than the rules give".into()));
                    }
                    let adm = ns(de.admitted_at, base);
                    if me.admitted == u64::MAX {
                        if adm < t_call || adm > t_ret {
                            return Some(viol("admit:admission-time", at, format!("admission time {adm} outside the push's span [{t_call}, {t_ret}]")));
                        }
                        me.admitted = adm;
                    } else if me.admitted != adm {
                        return Some(viol(content_class, at, "admission time of a pooled proof changed".into()));
                    }
                }
                let snap = db.last_snapshot_at.map(|i| ns(i, base));
                if snap != mb.last_snapshot {
                    let cls = if matches!(step, Step::Snapshot { .. }) { "custody:snapshot-mark" } else { content_class };
                    return Some(viol(cls, at, format!("last snapshot time is {:?}, expected {:?}", snap, mb.last_snapshot)));
                }
            }
            None
        })();
        let mut findings: Vec<(String, String)> = vec![];
        if let Some(v) = content_finding {
            findings.extend(v.findings);
        }
        // budget state
        let d_ws = ns(dump.verify_window_started, base);
        if d_ws != self.model.window_start || dump.verifies_in_window != self.model.verifies {
            let cls = if is_push { "budget:counter-state" } else { "budget:changed-by-non-push" };
            findings.push((cls.into(), format!("budget state is (window start {d_ws}, {} attempts), expected (window start {}, {} attempts)", dump.verifies_in_window, self.model.window_start, self.model.verifies)));
        }
        if findings.is_empty() {
            Ok(())
        } else {
            Err(Violation { at_step: at, findings })
        }
    }

    /// O-invariants (C20): evaluated on the dump and the public API only,
    /// independently of the model.
    fn check_invariants(&mut self, at: usize) -> Result<Vec<StatRow>, Violation> {
        let pool = self.be.pool();
        let dump: VerifPoolDump = pool.verif_dump();
        let n = self.params.n;
        let mut seen: BTreeMap<BytesDigest, BatchKey> = BTreeMap::new();
        let mut total = 0usize;
        for b in &dump.buckets {
            if b.entries.is_empty() {
                return Err(viol("inv:empty-bucket", at, "an empty bucket is retained".into()));
            }
            for e in &b.entries {
                total += 1;
                let Some(p) = model::parse_proof(e.proof, n) else {
                    return Err(viol("inv:pooled-proof-shape", at, "a pooled proof has the wrong public-input length".into()));
                };
                if p.key != b.key {
                    return Err(viol("inv:proof-in-foreign-bucket", at, "a proof sits in a bucket that is not its own key".into()));
                }
                if p.nullifiers.as_slice() != e.nullifiers {
                    return Err(viol("inv:cached-nullifiers", at, "cached nullifiers differ from the proof's public inputs".into()));
                }
                if p.volume != e.volume {
                    return Err(viol("inv:cached-volume", at, format!("cached volume {} differs from the saturating slot sum {}", e.volume, p.volume)));
                }
                let own: BTreeSet<BytesDigest> = p.nullifiers.iter().copied().collect();
                for nf in own {
                    if seen.insert(nf, b.key).is_some() {
                        return Err(viol("inv:shared-nullifier", at, "two pooled proofs share a nullifier".into()));
                    }
                }
            }
        }
        let index: BTreeMap<BytesDigest, BatchKey> = dump.index.iter().copied().collect();
        if index.len() != dump.index.len() {
            return Err(viol("inv:index", at, "index dump has duplicate keys".into()));
        }
        if index != seen {
            let missing = seen.keys().filter(|k| !index.contains_key(*k)).count();
            let stale = index.keys().filter(|k| !seen.contains_key(*k)).count();
            return Err(viol("inv:index", at, format!("nullifier index differs from pooled nullifiers ({missing} missing, {stale} stale, or wrong bucket)")));
        }
        if total > self.params.max_proofs {
            return Err(viol("inv:proof-limit", at, format!("{total} proofs pooled, limit {}", self.params.max_proofs)));
        }
        if dump.buckets.len() > self.params.max_buckets {
            return Err(viol("inv:bucket-limit", at, format!("{} buckets, limit {}", dump.buckets.len(), self.params.max_buckets)));
        }
        if dump.verifies_in_window > self.params.max_verifies {
            return Err(viol("budget:counter-over-limit", at, format!("{} attempts counted, limit {}", dump.verifies_in_window, self.params.max_verifies)));
        }
        if pool.len() != total || pool.num_buckets() != dump.buckets.len() || pool.is_empty() != (total == 0) || pool.batch_size() != self.params.batch {
            return Err(viol("inv:counts-api", at, format!("len()={} num_buckets()={} is_empty()={} disagree with contents ({} proofs, {} buckets)", pool.len(), pool.num_buckets(), pool.is_empty(), total, dump.buckets.len())));
        }
        // statistics
        let now = Instant::now();
        let stats = pool.bucket_stats();
        if stats.len() != dump.buckets.len() {
            return Err(viol("inv:stats", at, format!("bucket_stats reports {} buckets, pool has {}", stats.len(), dump.buckets.len())));
        }
        let mut by_key: HashMap<BatchKey, &wormhole_aggregator::pool::BucketStats> = HashMap::new();
        for s in &stats {
            if by_key.insert(s.key, s).is_some() {
                return Err(viol("inv:stats", at, "bucket_stats reports a key twice".into()));
            }
        }
        let mut rows = vec![];
        for b in &dump.buckets {
            let Some(s) = by_key.get(&b.key) else {
                return Err(viol("inv:stats", at, "bucket_stats misses a bucket".into()));
            };
            let oldest = b.entries.iter().map(|e| now.saturating_duration_since(e.admitted_at)).max().unwrap_or_default();
            let vol = b.entries.iter().fold(0u64, |a, e| a.saturating_add(model::parse_proof(e.proof, n).map(|p| p.volume).unwrap_or(0)));
            let snap = b.last_snapshot_at.map(|i| now.saturating_duration_since(i));
            if s.num_proofs != b.entries.len() || s.batch_size != self.params.batch {
                return Err(viol("inv:stats-count", at, format!("stats count {} / batch {} vs contents {} / {}", s.num_proofs, s.batch_size, b.entries.len(), self.params.batch)));
            }
            if s.total_volume != vol {
                if vol == u64::MAX {
                    self.probes.inc("volume_saturated_mismatch");
                }
                return Err(viol("inv:stats-volume", at, format!("stats volume {} vs saturating sum {}", s.total_volume, vol)));
            }
            if vol == u64::MAX {
                self.probes.inc("volume_saturated");
            }
            if s.oldest_age != oldest {
                return Err(viol("inv:stats-oldest-age", at, format!("stats oldest age {:?} vs {:?}", s.oldest_age, oldest)));
            }
            if s.last_snapshot_age != snap {
                return Err(viol("inv:stats-snapshot-age", at, format!("stats last snapshot age {:?} vs {:?}", s.last_snapshot_age, snap)));
            }
            if s.is_full() != (b.entries.len() >= self.params.batch) {
                return Err(viol("inv:stats-count", at, "is_full disagrees with contents".into()));
            }
            rows.push(StatRow {
                key: b.key,
                num: b.entries.len(),
                oldest_age_ns: oldest.as_nanos() as u64,
                last_snapshot_age_ns: snap.map(|d| d.as_nanos() as u64),
                full: b.entries.len() >= self.params.batch,
            });
        }
        if total >= self.params.max_proofs {
            self.probes.inc("state_pool_full");
        }
        if dump.buckets.len() >= self.params.max_buckets {
            self.probes.inc("state_bucket_map_full");
        }
        Ok(rows)
    }

    /// O-budget (C22), over the recorded history and independent of the model:
    /// per pool window (identified by the window start the accessor reports)
    /// the number of verification calls is within the limit, and a new window
    /// start is only observed at a push at least one window after the previous.
    pub fn check_budget_history(&self, pushes: &[PushRecord], max: usize, window_ns: u64) -> Result<(), Violation> {
        let mut cur_ws: Option<u64> = None;
        let mut in_window = 0u64;
        for (i, p) in pushes.iter().enumerate() {
            match cur_ws {
                Some(ws) if ws == p.window_start_after => {}
                Some(ws) => {
                    if p.t_call < ws.saturating_add(window_ns) {
                        return Err(viol("budget:early-restart", i, format!("window restarted at a push at {} although the window began at {ws} and lasts {window_ns}", p.t_call)));
                    }
                    cur_ws = Some(p.window_start_after);
                    in_window = 0;
                }
                None => cur_ws = Some(p.window_start_after),
            }
            in_window += p.verifies;
            if in_window > max as u64 {
                return Err(viol("budget:over-limit-in-window", i, format!("{in_window} verifications in the window starting at {:?}, limit {max}", cur_ws)));
            }
        }
        Ok(())
    }
}
