//! Sequential reference model of the proof pool, written against the
//! documented behaviour (DESIGN.md 5.3). Maps and vectors only.
use crate::fake::Proof;
use plonky2::field::types::{Field, PrimeField64};
use std::collections::{BTreeMap, BTreeSet};
use wormhole_aggregator::pool::BatchKey;
use wormhole_aggregator::private_batch::circuit::constants::aggregated_output as ao;
use wormhole_inputs::BytesDigest;
use zk_circuits_common::circuit::F;
use zk_circuits_common::utils::try_4_felts_to_bytes;

#[derive(Clone, Copy, Debug)]
pub struct Limits {
    pub max_proofs: usize,
    pub max_buckets: usize,
    pub max_verifies: usize,
    pub window_ns: u64,
}

#[derive(Clone, Debug)]
pub struct Parsed {
    pub key: BatchKey,
    pub nullifiers: Vec<BytesDigest>,
    pub volume: u64,
}

fn digest(v: &[u64]) -> BytesDigest {
    let f: Vec<F> = v.iter().map(|x| F::from_canonical_u64(*x)).collect();
    try_4_felts_to_bytes(&f).expect("4 canonical felts always encode")
}

/// Parse key, nullifiers and volume at the documented offsets. `None` when the
/// length is not the layout length for `n` leaves.
pub fn parse(pis: &[u64], n: usize) -> Option<Parsed> {
    if pis.len() != ao::pi_len(n) {
        return None;
    }
    let key = BatchKey {
        block_hash: digest(&pis[ao::BLOCK_HASH_OFFSET..ao::BLOCK_HASH_OFFSET + 4]),
        asset_id: pis[ao::ASSET_ID_OFFSET],
        volume_fee_bps: pis[ao::VOLUME_FEE_BPS_OFFSET],
    };
    let ns = ao::nullifiers_start(n);
    let nullifiers = (0..n).map(|i| digest(&pis[ns + 4 * i..ns + 4 * i + 4])).collect();
    let mut volume = 0u64;
    for i in 0..2 * n {
        volume = volume.saturating_add(pis[ao::exit_slots_start() + i * ao::EXIT_SLOT_LEN]);
    }
    Some(Parsed { key, nullifiers, volume })
}

pub fn parse_proof(p: &Proof, n: usize) -> Option<Parsed> {
    let v: Vec<u64> = p.public_inputs.iter().map(|f| f.to_canonical_u64()).collect();
    parse(&v, n)
}

#[derive(Clone, Debug)]
pub struct MEntry {
    /// index into the executor's message table
    pub msg: usize,
    pub parsed: Parsed,
    /// admission time (ns, virtual); learned from the implementation inside the
    /// push's time span
    pub admitted: u64,
}

#[derive(Clone, Debug, Default)]
pub struct MBucket {
    pub entries: Vec<MEntry>,
    pub last_snapshot: Option<u64>,
}

#[derive(Clone, Copy, Debug, PartialEq, Eq, Hash)]
pub enum Decision {
    Full,
    Shape,
    Dummy,
    Budget,
    VerifyFail,
    BucketCap,
    Duplicate,
    Admit,
}

impl Decision {
    pub fn name(&self) -> &'static str {
        match self {
            Decision::Full => "full",
            Decision::Shape => "shape",
            Decision::Dummy => "dummy",
            Decision::Budget => "budget",
            Decision::VerifyFail => "verify_fail",
            Decision::BucketCap => "bucket_cap",
            Decision::Duplicate => "duplicate",
            Decision::Admit => "admit",
        }
    }
    /// The push gets as far as the budget test (step 4).
    pub fn reaches_budget(&self) -> bool {
        !matches!(self, Decision::Full | Decision::Shape | Decision::Dummy)
    }
    /// The push gets as far as cryptographic verification (step 5).
    pub fn reaches_verify(&self) -> bool {
        matches!(
            self,
            Decision::VerifyFail | Decision::BucketCap | Decision::Duplicate | Decision::Admit
        )
    }
}

#[derive(Clone, Debug)]
pub struct Model {
    pub n: usize,
    pub batch: usize,
    pub limits: Limits,
    pub buckets: BTreeMap<BatchKey, MBucket>,
    pub window_start: u64,
    pub verifies: usize,
}

impl Model {
    pub fn new(n: usize, batch: usize, limits: Limits, now: u64) -> Self {
        Model { n, batch, limits, buckets: BTreeMap::new(), window_start: now, verifies: 0 }
    }

    pub fn len(&self) -> usize {
        self.buckets.values().map(|b| b.entries.len()).sum()
    }

    pub fn indexed(&self) -> BTreeMap<BytesDigest, BatchKey> {
        let mut m = BTreeMap::new();
        for (k, b) in &self.buckets {
            for e in &b.entries {
                for nf in &e.parsed.nullifiers {
                    m.insert(*nf, *k);
                }
            }
        }
        m
    }

    pub fn window_elapsed(&self, now: u64) -> bool {
        now.saturating_sub(self.window_start) >= self.limits.window_ns
    }

    /// Decide a push at time `now` in the documented order. `verifies_ok` is
    /// the ground truth of cryptographic verification, consulted only if the
    /// decision gets that far.
    pub fn decide(&self, pis: &[u64], now: u64, verifies_ok: &mut dyn FnMut() -> bool) -> (Decision, Option<Parsed>) {
        if self.len() >= self.limits.max_proofs {
            return (Decision::Full, None);
        }
        let Some(parsed) = parse(pis, self.n) else {
            return (Decision::Shape, None);
        };
        if parsed.key.block_hash == BytesDigest::default() {
            return (Decision::Dummy, Some(parsed));
        }
        let count = if self.window_elapsed(now) { 0 } else { self.verifies };
        if count >= self.limits.max_verifies {
            return (Decision::Budget, Some(parsed));
        }
        if !verifies_ok() {
            return (Decision::VerifyFail, Some(parsed));
        }
        if !self.buckets.contains_key(&parsed.key) && self.buckets.len() >= self.limits.max_buckets {
            return (Decision::BucketCap, Some(parsed));
        }
        let idx = self.indexed();
        if parsed.nullifiers.iter().any(|n| idx.contains_key(n)) {
            return (Decision::Duplicate, Some(parsed));
        }
        (Decision::Admit, Some(parsed))
    }

    /// Entries a settlement set removes: (key, position) pairs.
    pub fn settled_targets(&self, settled: &BTreeSet<BytesDigest>) -> Vec<(BatchKey, usize)> {
        let mut v = vec![];
        for (k, b) in &self.buckets {
            for (i, e) in b.entries.iter().enumerate() {
                if e.parsed.nullifiers.iter().any(|n| settled.contains(n)) {
                    v.push((*k, i));
                }
            }
        }
        v
    }

    /// Entries an expiry at `now` with `max_age` removes (strictly older).
    pub fn expired_targets(&self, now: u64, max_age: u64) -> Vec<(BatchKey, usize)> {
        let mut v = vec![];
        for (k, b) in &self.buckets {
            for (i, e) in b.entries.iter().enumerate() {
                if now.saturating_sub(e.admitted) > max_age {
                    v.push((*k, i));
                }
            }
        }
        v
    }

    pub fn remove(&mut self, targets: &[(BatchKey, usize)]) {
        let mut by_key: BTreeMap<BatchKey, BTreeSet<usize>> = BTreeMap::new();
        for (k, i) in targets {
            by_key.entry(*k).or_default().insert(*i);
        }
        for (k, idxs) in by_key {
            let b = self.buckets.get_mut(&k).unwrap();
            let mut i = 0;
            b.entries.retain(|_| {
                let keep = !idxs.contains(&i);
                i += 1;
                keep
            });
            if b.entries.is_empty() {
                self.buckets.remove(&k);
            }
        }
    }
}
