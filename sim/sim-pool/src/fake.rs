//! Stub private-batch circuit (the 2-gate circuit the repository's own pool
//! tests use) with the real public-input layout, a seeded proof corpus over
//! it, and in-flight message mutations.
use plonky2::field::types::{Field, PrimeField64};
use plonky2::iop::target::Target;
use plonky2::iop::witness::{PartialWitness, WitnessWrite};
use plonky2::plonk::circuit_builder::CircuitBuilder;
use plonky2::plonk::circuit_data::{CircuitConfig, CircuitData};
use plonky2::plonk::proof::ProofWithPublicInputs;
use qpz_core::rng::Rng;
use serde::{Deserialize, Serialize};
use wormhole_aggregator::private_batch::circuit::constants::aggregated_output as ao;
use zk_circuits_common::circuit::{C, D, F};

pub type Proof = ProofWithPublicInputs<F, C, D>;

/// Largest canonical Goldilocks value.
pub const P_MINUS_1: u64 = 0xFFFF_FFFF_0000_0000;

pub struct FakeCircuit {
    pub n: usize,
    pub data: CircuitData<F, C, D>,
    pub targets: Vec<Target>,
}

pub fn build_fake_circuit(n: usize) -> FakeCircuit {
    let config = CircuitConfig::standard_recursion_config();
    let mut builder = CircuitBuilder::<F, D>::new(config);
    let pis = builder.add_virtual_targets(ao::pi_len(n));
    builder.range_check(pis[0], 32);
    builder.register_public_inputs(&pis);
    FakeCircuit {
        n,
        data: builder.build::<C>(),
        targets: pis,
    }
}

/// Everything that determines one stub proof.
#[derive(Clone, Debug, Serialize, Deserialize, PartialEq, Eq, Hash)]
pub struct Spec {
    pub n: usize,
    pub block: [u64; 4],
    pub block_number: u64,
    pub asset: u64,
    pub fee: u64,
    /// N nullifiers, 4 felts each.
    pub nullifiers: Vec<[u64; 4]>,
    /// 2N exit slots: (amount, account).
    pub slots: Vec<(u64, [u64; 4])>,
}

impl Spec {
    pub fn public_inputs(&self) -> Vec<u64> {
        let mut v = vec![0u64; ao::pi_len(self.n)];
        v[ao::NUM_EXIT_SLOTS_OFFSET] = (2 * self.n) as u64;
        v[ao::ASSET_ID_OFFSET] = self.asset;
        v[ao::VOLUME_FEE_BPS_OFFSET] = self.fee;
        v[ao::BLOCK_HASH_OFFSET..ao::BLOCK_HASH_OFFSET + 4].copy_from_slice(&self.block);
        v[ao::BLOCK_NUMBER_OFFSET] = self.block_number;
        for (i, (amount, account)) in self.slots.iter().enumerate() {
            let s = ao::exit_slots_start() + i * ao::EXIT_SLOT_LEN;
            v[s] = *amount;
            v[s + 1..s + 5].copy_from_slice(account);
        }
        for (i, nf) in self.nullifiers.iter().enumerate() {
            let s = ao::nullifiers_start(self.n) + i * 4;
            v[s..s + 4].copy_from_slice(nf);
        }
        v
    }
}

pub fn prove_spec(c: &FakeCircuit, spec: &Spec) -> Proof {
    assert_eq!(c.n, spec.n);
    let mut pw = PartialWitness::new();
    for (t, v) in c.targets.iter().zip(spec.public_inputs()) {
        pw.set_target(*t, F::from_canonical_u64(v)).unwrap();
    }
    c.data.prove(pw).expect("stub proving failed")
}

/// The universe the corpus is drawn from: a handful of keys and nullifiers so
/// that collisions, full buckets and full pools are the norm.
pub struct Universe {
    pub keys: Vec<([u64; 4], u64, u64)>,
    pub nullifiers: Vec<[u64; 4]>,
}

pub fn universe(n: usize) -> Universe {
    let blocks: [[u64; 4]; 4] = [
        [1, 0, 0, 0],
        [2, 0, 0, 0],
        [0, 0, 0, 7],             // non-zero only in the last limb
        [P_MINUS_1, 1, 2, 3],
    ];
    let mut keys = vec![];
    for (i, b) in blocks.iter().enumerate() {
        keys.push((*b, 0u64, 10u64));
        if i < 2 {
            keys.push((*b, 1, 10));
            keys.push((*b, 0, 20));
        }
    }
    let mut nullifiers = vec![];
    for i in 0..(4 + 4 * n) as u64 {
        nullifiers.push(match i % 4 {
            0 => [100 + i, 0, 0, 0],
            1 => [0, 0, 0, 100 + i],
            2 => [100 + i, 100 + i, P_MINUS_1, 1],
            _ => [i + 1, i + 2, i + 3, i + 4],
        });
    }
    Universe { keys, nullifiers }
}

pub fn random_spec(n: usize, u: &Universe, rng: &mut Rng) -> Spec {
    let (block, asset, fee) = *rng.pick(&u.keys);
    // mostly distinct nullifiers inside a proof, sometimes a repeat
    let mut nfs = vec![];
    while nfs.len() < n {
        let cand = *rng.pick(&u.nullifiers);
        if !nfs.contains(&cand) || rng.chance(1, 8) {
            nfs.push(cand);
        }
    }
    let amounts = [0u64, 0, 0, 1, 50, 100, 100, 7_000, 1 << 40, 1 << 40, 1 << 62, 1 << 63, P_MINUS_1];
    let slots = (0..2 * n)
        .map(|_| {
            let a = *rng.pick(&amounts);
            let acct = [rng.below(3), 0, 0, rng.below(2)];
            (a, acct)
        })
        .collect();
    Spec {
        n,
        block,
        block_number: 1 + rng.below(5),
        asset,
        fee,
        nullifiers: nfs,
        slots,
    }
}

/// In-flight corruption of a message / byzantine submission.
#[derive(Clone, Debug, Serialize, Deserialize, PartialEq, Eq, Hash)]
pub enum Mutation {
    /// add 1 to public-input felt `idx` (proof no longer verifies)
    FlipPi { idx: usize },
    /// overwrite the block hash with zero (invalid all-dummy claim)
    ZeroBlock,
    /// drop the last public input
    PiShorter,
    /// append one public input
    PiLonger,
    /// leaf-length public-input vector (21 felts)
    PiLeafLen,
    /// flip one bit of the serialised proof body
    FlipByte { offset: usize, bit: u8 },
}

/// Apply a mutation; `None` when the mutated bytes no longer deserialise (the
/// transport drops such a message before it reaches the pool).
pub fn mutate(c: &FakeCircuit, proof: &Proof, m: &Mutation) -> Option<Proof> {
    let mut p = proof.clone();
    match m {
        Mutation::FlipPi { idx } => {
            let i = idx % p.public_inputs.len();
            p.public_inputs[i] += F::ONE;
        }
        Mutation::ZeroBlock => {
            for i in 0..4 {
                p.public_inputs[ao::BLOCK_HASH_OFFSET + i] = F::ZERO;
            }
        }
        Mutation::PiShorter => {
            p.public_inputs.pop();
        }
        Mutation::PiLonger => p.public_inputs.push(F::ZERO),
        Mutation::PiLeafLen => p.public_inputs.truncate(21),
        Mutation::FlipByte { offset, bit } => {
            let mut bytes = proof.to_bytes();
            let pi_bytes = proof.public_inputs.len() * 8;
            let body = bytes.len().saturating_sub(pi_bytes).max(1);
            let o = offset % body;
            bytes[o] ^= 1 << (bit % 8);
            return std::panic::catch_unwind(std::panic::AssertUnwindSafe(|| Proof::from_bytes(bytes, &c.data.common).ok()))
                .ok()
                .flatten();
        }
    }
    Some(p)
}

pub fn pis_u64(p: &Proof) -> Vec<u64> {
    p.public_inputs.iter().map(|f| f.to_canonical_u64()).collect()
}
