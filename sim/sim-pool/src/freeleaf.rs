//! C36 over a STAND-IN leaf circuit whose public inputs are free (the repository's own
//! `test_helpers::fake_leaf`): the real private-batch and public-batch wrapper circuits, provers and
//! verifiers, fed with leaf statements no real leaf can be made to carry at will - block hashes with
//! a single non-zero limb, amounts at the 32-bit sum bound, accounts and nullifiers that differ from
//! the zero sentinel in one limb. Same pipeline roles as real mode (clients commit padded private
//! batches through the RNG seam, an aggregator commits them into a public batch, the chain verifies),
//! same native conservation oracle.
use plonky2::field::types::{Field, PrimeField64};
use plonky2::hash::poseidon2::Poseidon2Hash;
use plonky2::iop::target::Target;
use plonky2::iop::witness::{PartialWitness, Witness, WitnessWrite};
use plonky2::plonk::circuit_data::{CircuitData, VerifierCircuitData};
use plonky2::plonk::config::Hasher;
use plonky2::plonk::proof::ProofWithPublicInputs;
use qpz_core::evidence::Counters;
use qpz_core::harness_error;
use qpz_core::rng::{mix, Rng};
use std::collections::BTreeMap;
use test_helpers::fake_leaf::{build_fake_leaf_circuit, prove_fake_leaf};
use wormhole_aggregator::common::utils::{canonical_private_batch_verifier_data, canonical_public_batch_verifier_data};
use wormhole_aggregator::private_batch::circuit::circuit_logic::PrivateBatchCircuit;
use wormhole_aggregator::private_batch::prover::PrivateBatchProver;
use wormhole_aggregator::public_batch::prover::{PublicBatchInputs, PublicBatchProver};
use wormhole_aggregator::verif_hooks;
use wormhole_inputs::BytesDigest;
use zk_circuits_common::circuit::{wormhole_private_batch_circuit_config, wormhole_public_batch_circuit_config, C, D, F};

type Proof = ProofWithPublicInputs<F, C, D>;
const P_MINUS_1: u64 = 0xFFFF_FFFF_0000_0000;

pub struct Ctx {
    pub n: usize,
    pub m: usize,
    leaf: CircuitData<F, C, D>,
    leaf_targets: [Target; 21],
    leaf_vd: VerifierCircuitData<F, C, D>,
    dummy_leaf: Proof,
    pb_vd: VerifierCircuitData<F, C, D>,
    pb_template: Proof,
    public_vd: VerifierCircuitData<F, C, D>,
}

fn f(x: u64) -> F {
    F::from_canonical_u64(x)
}

fn leaf_pis(asset: u64, out: [u64; 2], fee: u64, nullifier: [u64; 4], exits: [[u64; 4]; 2], block: [u64; 4], block_number: u64) -> [F; 21] {
    let mut v = [F::ZERO; 21];
    v[0] = f(asset);
    v[1] = f(out[0]);
    v[2] = f(out[1]);
    v[3] = f(fee);
    for j in 0..4 {
        v[4 + j] = f(nullifier[j]);
        v[8 + j] = f(exits[0][j]);
        v[12 + j] = f(exits[1][j]);
        v[16 + j] = f(block[j]);
    }
    v[20] = f(block_number);
    v
}

pub fn build_ctx(n: usize, m: usize, seed: u64) -> Ctx {
    let (leaf, leaf_targets) = build_fake_leaf_circuit();
    let leaf_vd = leaf.verifier_data();
    let dummy_leaf = prove_fake_leaf(&leaf, &leaf_targets, leaf_pis(0, [0, 0], 10, [5, 6, 7, 8], [[0; 4]; 2], [0; 4], 0));
    let pb_vd = canonical_private_batch_verifier_data(&leaf_vd, n).unwrap_or_else(|e| harness_error(&format!("private-batch circuit over the stand-in leaf: {e:#}")));
    // the all-dummy private batch (the padding template of the public layer), proved the way the builder does
    let pb_template = {
        let circuit = PrivateBatchCircuit::new(wormhole_private_batch_circuit_config(), &leaf_vd.common, &leaf_vd.verifier_only, n).unwrap_or_else(|e| harness_error(&format!("{e:#}")));
        let targets = circuit.targets();
        let prover = circuit.build_prover();
        let mut r = Rng::new(mix(seed, 0xF4EE_0001));
        let pre: Vec<[F; 4]> = (0..n).map(|_| core::array::from_fn(|_| f(r.below(P_MINUS_1)))).collect();
        // (the crate's witness filler is private by design; the targets are public)
        let mut pw = PartialWitness::new();
        for (slot, t) in targets.leaf_proofs.iter().enumerate() {
            pw.set_proof_with_pis_target(t, &dummy_leaf).unwrap_or_else(|e| harness_error(&format!("cannot set the dummy leaf of slot {slot}: {e}")));
            for l in 0..4 {
                pw.set_target(targets.dummy_nullifier_pre_images[slot][l], pre[slot][l]).unwrap_or_else(|e| harness_error(&format!("cannot set a preimage target: {e}")));
            }
        }
        prover.prove(pw).unwrap_or_else(|e| harness_error(&format!("cannot prove the all-dummy private batch: {e:#}")))
    };
    let public_vd = canonical_public_batch_verifier_data(&pb_vd, m, n).unwrap_or_else(|e| harness_error(&format!("public-batch circuit over the stand-in leaf: {e:#}")));
    Ctx { n, m, leaf, leaf_targets, leaf_vd, dummy_leaf, pb_vd, pb_template, public_vd }
}

#[derive(Clone, Debug)]
struct LeafInfo {
    nullifier: [u64; 4],
    outs: [(u64, [u64; 4]); 2],
}

#[derive(Default)]
pub struct FreeOut {
    pub findings: Vec<(String, String)>,
    pub probes: Counters,
    pub public_proofs: u64,
    pub private_proofs: u64,
    pub leaf_proofs: u64,
    pub history: u64,
    pub sample: Option<serde_json::Value>,
}

fn h4(x: &[F]) -> [F; 4] {
    Poseidon2Hash::hash_no_pad(x).elements
}

fn pis(p: &Proof) -> Vec<u64> {
    p.public_inputs.iter().map(|x| x.to_canonical_u64()).collect()
}

/// One run: one block, a handful of leaf statements, split into padded private batches, one public batch.
/// `hint` selects the block-hash class (hint % 8), so that a short batch covers every class.
pub fn run_one(ctx: &Ctx, seed: u64, hint: u8) -> FreeOut {
    let mut out = FreeOut::default();
    let (n, m) = (ctx.n, ctx.m);
    let mut r = Rng::new(seed);
    // ---- the statement space real leaves cannot be steered into ----
    let x = 1 + r.below(P_MINUS_1);
    let block: [u64; 4] = match (hint % 8) as u64 {
        0 => [x, 0, 0, 0],
        1 => [0, x, 0, 0],
        2 => [0, 0, x, 0],
        3 => [0, 0, 0, x],
        4 => [0, 0, 0, 1],
        5 => [P_MINUS_1; 4],
        _ => core::array::from_fn(|_| r.below(P_MINUS_1)),
    };
    out.probes.inc(&format!("block_hash_class_{}", if block.iter().filter(|l| **l != 0).count() == 1 { "single_limb" } else { "general" }));
    let fee = *r.pick(&[0u64, 10, 9_999, 10_000]);
    let block_number = *r.pick(&[0u64, 1, 77, u32::MAX as u64]);
    let accounts: Vec<[u64; 4]> = vec![[0; 4], [0, 0, 0, 1], [1, 0, 0, 0], core::array::from_fn(|_| r.below(P_MINUS_1)), [P_MINUS_1; 4]];
    // how many inners, how many real leaves in each
    let g = r.range(1, m as u64) as usize;
    let mut next_null = 1u64;
    let mut inners: Vec<(Proof, Vec<LeafInfo>, Vec<[u64; 4]>)> = vec![];
    let leaf_vo = &ctx.leaf_vd.verifier_only;
    let mut prover_slot = Some(PrivateBatchProver::new(wormhole_private_batch_circuit_config(), ctx.leaf_vd.common.clone(), leaf_vo, n, ctx.dummy_leaf.clone()).unwrap_or_else(|e| harness_error(&format!("private-batch prover over the stand-in leaf: {e:#}"))));
    for gi in 0..g {
        let k = r.range(1, n as u64) as usize;
        // per private batch the grouped sum of one account must stay below 2^32: budget the amounts
        let cap = (u32::MAX as u64) / (2 * n as u64);
        let mut leaves: Vec<LeafInfo> = vec![];
        let mut supplied: Vec<Proof> = vec![];
        for _ in 0..k {
            let amt = |r: &mut Rng| *r.pick(&[0u64, 0, 1, 7, cap, cap - 1, 1 << 16]);
            let (o1, o2) = (amt(&mut r), amt(&mut r));
            let (e1, e2) = (*r.pick(&accounts), *r.pick(&accounts));
            let nullifier: [u64; 4] = match r.below(4) {
                0 => [0, 0, 0, next_null],
                1 => [next_null, 0, 0, 0],
                _ => [next_null, r.below(P_MINUS_1), r.below(P_MINUS_1), r.below(P_MINUS_1)],
            };
            next_null += 1;
            supplied.push(prove_fake_leaf(&ctx.leaf, &ctx.leaf_targets, leaf_pis(0, [o1, o2], fee, nullifier, [e1, e2], block, block_number)));
            leaves.push(LeafInfo { nullifier, outs: [(o1, e1), (o2, e2)] });
            out.leaf_proofs += 1;
        }
        // a client-supplied dummy leaf that names accounts (possibly a real leaf's) and carries junk elsewhere
        if k < n && r.chance(1, 2) {
            let e = [leaves[0].outs[0].1, *r.pick(&accounts)];
            supplied.insert(r.usize(supplied.len() + 1), prove_fake_leaf(&ctx.leaf, &ctx.leaf_targets, leaf_pis(0, [0, 0], fee, [9, 9, 9, r.below(1000)], e, [0; 4], 0)));
            out.probes.inc("client_supplied_dummy_leaf");
        }
        let n_real = leaves.len();
        let prover = prover_slot.take().unwrap();
        let targets = prover.verif_targets().expect("armed");
        let mut pr = Rng::new(mix(seed, 0xBA7C_0000 + gi as u64));
        verif_hooks::set_rng_provider(Some(Box::new(move |dest: &mut [u8]| pr.fill(dest))));
        let committed = prover.commit(supplied);
        verif_hooks::set_rng_provider(None);
        let mut committed = match committed {
            Ok(c) => c,
            Err(e) => harness_error(&format!("commit of compatible stand-in leaves failed: {e:#}")),
        };
        let pw = committed.verif_partial_witness();
        let mut dummy_pre = vec![];
        for (slot, t) in targets.leaf_proofs.iter().enumerate() {
            let bh: Vec<u64> = (16..20).map(|j| pw.try_get_target(t.public_inputs[j]).map(|v| v.to_canonical_u64()).unwrap_or(1)).collect();
            if bh.iter().all(|v| *v == 0) {
                let pre: Vec<u64> = (0..4).map(|l| pw.try_get_target(targets.dummy_nullifier_pre_images[slot][l]).map(|v| v.to_canonical_u64()).unwrap_or(0)).collect();
                dummy_pre.push([pre[0], pre[1], pre[2], pre[3]]);
            }
        }
        if dummy_pre.len() != n - n_real {
            harness_error("stand-in leaves: could not identify the dummy slots of a committed private batch");
        }
        let witness = committed.verif_partial_witness().clone();
        let proof = committed.circuit_data.prove(witness).unwrap_or_else(|e| harness_error(&format!("cannot prove a private batch of compatible stand-in leaves: {e:#}")));
        committed.verif_rearm(targets);
        prover_slot = Some(committed);
        out.private_proofs += 1;
        // the first layer's share of the end-to-end claim, checked where it arises: what this inner
        // hands to the public layer already carries the real leaves' block, value and nullifiers
        {
            let iv = pis(&proof);
            let what = format!("private batch {gi} over block hash {:?} with {} real leaf/leaves", block, leaves.len());
            if iv[3..7] != block {
                out.findings.push(("conserve:real-inner-block-reference".into(), format!("stand-in leaves ({what}): the private batch exposes block hash {:?}; a zero reference makes the public layer treat it as padding and drop its value", &iv[3..7])));
            }
            let want: u128 = leaves.iter().flat_map(|l| l.outs.iter().map(|(a, _)| *a as u128)).sum();
            let got: u128 = (0..2 * n).map(|s| iv[8 + 5 * s] as u128).sum();
            if got != want {
                out.findings.push(("conserve:total-value".into(), format!("stand-in leaves ({what}): its exit slots sum to {got}, its real leaves pay out {want}")));
            }
            let mut want_n: Vec<[u64; 4]> = leaves.iter().map(|l| l.nullifier).collect();
            for p in &dummy_pre {
                let fe: Vec<F> = p.iter().map(|x| f(*x)).collect();
                let o = h4(&h4(&fe));
                want_n.push([o[0].to_canonical_u64(), o[1].to_canonical_u64(), o[2].to_canonical_u64(), o[3].to_canonical_u64()]);
            }
            let ns = 8 + 10 * n;
            let mut got_n: Vec<[u64; 4]> = (0..n).map(|j| [iv[ns + 4 * j], iv[ns + 4 * j + 1], iv[ns + 4 * j + 2], iv[ns + 4 * j + 3]]).collect();
            want_n.sort();
            got_n.sort();
            if got_n != want_n {
                out.findings.push(("conserve:nullifiers".into(), format!("stand-in leaves ({what}): its nullifier region is not the real leaves' nullifiers plus the dummy-slot replacements")));
            }
        }
        if !out.findings.is_empty() {
            out.history = qpz_core::rng::hash_str(&format!("{:?}", out.findings));
            return out;
        }
        inners.push((proof, leaves, dummy_pre));
    }
    // ---- the aggregator: reals in order, possibly with the padding template supplied ahead of one ----
    let mut layout: Vec<Option<usize>> = (0..inners.len()).map(Some).collect();
    if layout.len() < m && r.chance(1, 2) {
        layout.insert(r.usize(layout.len()), None);
        out.probes.inc("padding_template_ahead_of_a_real_inner");
    }
    let vproofs: Vec<Proof> = layout.iter().map(|s| match s { Some(i) => inners[*i].0.clone(), None => ctx.pb_template.clone() }).collect();
    let addr = BytesDigest::try_from([7u8; 32]).unwrap();
    let pp = PublicBatchProver::new(wormhole_public_batch_circuit_config(), ctx.pb_vd.common.clone(), &ctx.pb_vd.verifier_only, m, n, ctx.pb_template.clone()).unwrap_or_else(|e| harness_error(&format!("public-batch prover over the stand-in leaf: {e:#}")));
    let proof = match pp.commit(PublicBatchInputs { proofs: vproofs, aggregator_address: addr }).and_then(|c| c.prove()) {
        Ok(p) => p,
        Err(e) => harness_error(&format!("public batch of compatible inners (stand-in leaves) could not be proved: {e:#}")),
    };
    out.public_proofs += 1;
    if ctx.public_vd.verify(proof.clone()).is_err() {
        harness_error("a public-batch proof over stand-in leaves does not verify under the verifier rebuilt for it");
    }
    // ---- native oracle (as in real mode) ----
    let v = pis(&proof);
    let hdr = 12usize;
    let slots = m * 2 * n;
    let mut want_acct: BTreeMap<[u64; 4], u128> = BTreeMap::new();
    let mut want_total: u128 = 0;
    let mut want_nulls: Vec<[u64; 4]> = vec![];
    for (_, leaves, pre) in &inners {
        for l in leaves {
            for (amt, acct) in &l.outs {
                want_total += *amt as u128;
                if *amt > 0 {
                    *want_acct.entry(*acct).or_default() += *amt as u128;
                }
            }
            want_nulls.push(l.nullifier);
        }
        for p in pre {
            let fe: Vec<F> = p.iter().map(|x| f(*x)).collect();
            let o = h4(&h4(&fe));
            want_nulls.push([o[0].to_canonical_u64(), o[1].to_canonical_u64(), o[2].to_canonical_u64(), o[3].to_canonical_u64()]);
        }
    }
    let mut got_total: u128 = 0;
    let mut got_acct: BTreeMap<[u64; 4], u128> = BTreeMap::new();
    for s in 0..slots {
        let o = hdr + 5 * s;
        let amt = v[o] as u128;
        got_total += amt;
        if amt > 0 {
            *got_acct.entry([v[o + 1], v[o + 2], v[o + 3], v[o + 4]]).or_default() += amt;
        }
    }
    let what = format!("block hash {:?}, fee {fee}, {} inner(s), layout {:?}", block, inners.len(), layout);
    if got_total != want_total {
        out.findings.push(("conserve:total-value".into(), format!("stand-in leaves ({what}): exit slots sum to {got_total}, the real leaves pay out {want_total}")));
    }
    if got_acct != want_acct {
        out.findings.push(("conserve:per-account-value".into(), format!("stand-in leaves ({what}): per-account totals differ: public output {:?}, real leaves {:?}", got_acct, want_acct)));
    }
    let ns = hdr + 5 * slots;
    let mut got_nulls: Vec<[u64; 4]> = (0..m * n).map(|j| [v[ns + 4 * j], v[ns + 4 * j + 1], v[ns + 4 * j + 2], v[ns + 4 * j + 3]]).filter(|x| *x != [0; 4]).collect();
    got_nulls.sort();
    want_nulls.sort();
    if got_nulls != want_nulls {
        out.findings.push(("conserve:nullifiers".into(), format!("stand-in leaves ({what}): non-zero nullifiers of the public output ({}) are not exactly the real leaves' nullifiers plus the dummy-slot replacements ({})", got_nulls.len(), want_nulls.len())));
    }
    for pad in (0..m).filter(|p| layout.get(*p).copied().flatten().is_none()) {
        let seg_exits = &v[hdr + 5 * (pad * 2 * n)..hdr + 5 * ((pad + 1) * 2 * n)];
        let seg_nulls = &v[ns + 4 * (pad * n)..ns + 4 * ((pad + 1) * n)];
        if seg_exits.iter().chain(seg_nulls.iter()).any(|x| *x != 0) {
            out.findings.push(("conserve:padding-inner-not-zero".into(), format!("stand-in leaves ({what}): the segment of padding inner {pad} is not all-zero")));
        }
        out.probes.inc("padding_inner_checked");
    }
    out.probes.inc("stand_in_leaf_conservation_checked");
    out.history = qpz_core::rng::hash_str(&format!("{v:?}"));
    out.sample = Some(serde_json::json!({"stand_in_leaf": true, "n": n, "m": m, "block_hash": block, "fee": fee, "inners": inners.len(), "layout": layout.iter().map(|s| s.map(|i| i as i64).unwrap_or(-1)).collect::<Vec<_>>(), "total_value": want_total.to_string()}));
    out
}
