//! SIM-A: aggregator service simulation (DESIGN.md section 5).
mod clock;
mod des;
mod exec;
mod fake;
mod freeleaf;
mod model;
mod real;

use des::{RunOutput, RunParams, World};
use exec::{Backend, KeyRepr, PoolParams, Step, Violation};
use fake::{FakeCircuit, Mutation, Proof, Spec};
use model::Decision;
use plonky2::plonk::circuit_data::VerifierCircuitData;
use qpz_core::evidence::{Counters, Evidence};
use qpz_core::rng::{mix, Rng};
use qpz_core::runner::{run_batch, BatchCfg};
use qpz_core::{harness_error, Tier, EXIT_OK, EXIT_VIOLATION};
use serde::{Deserialize, Serialize};
use serde_json::json;
use std::collections::{HashMap, HashSet};
use std::time::Duration;
use wormhole_aggregator::pool::{BatchKey, ProofPool};
use wormhole_inputs::BytesDigest;
use zk_circuits_common::circuit::{C, D, F};

// ---------------------------------------------------------------- fake world

pub struct FakeWorld {
    circuit: FakeCircuit,
    verifier: VerifierCircuitData<F, C, D>,
    specs: Vec<Spec>,
    proofs: Vec<Proof>,
    valid: Vec<bool>,
    keys: Vec<KeyRepr>,
}

impl FakeWorld {
    fn build(n: usize, seed: u64, size: usize) -> FakeWorld {
        let circuit = fake::build_fake_circuit(n);
        let u = fake::universe(n);
        let mut rng = Rng::new(mix(seed, 0xC0_0000 + n as u64));
        let mut specs: Vec<Spec> = vec![];
        let mut seen = HashSet::new();
        while specs.len() < size {
            let mut s = fake::random_spec(n, &u, &mut rng);
            // one proof in 16 is a (valid) all-dummy proof
            if rng.chance(1, 16) {
                s.block = [0; 4];
            }
            if seen.insert(s.clone()) {
                specs.push(s);
            }
        }
        Self::from_specs(circuit, specs)
    }

    fn from_specs(circuit: FakeCircuit, specs: Vec<Spec>) -> FakeWorld {
        let u = fake::universe(circuit.n);
        let verifier = circuit.data.verifier_data();
        // prove in parallel (stub proving is deterministic: no ZK blinding)
        let proofs: Vec<Proof> = std::thread::scope(|s| {
            let chunks: Vec<_> = specs.chunks(specs.len().div_ceil(qpz_core::workers()).max(1)).collect();
            let hs: Vec<_> = chunks.into_iter().map(|c| { let circuit = &circuit; s.spawn(move || c.iter().map(|sp| fake::prove_spec(circuit, sp)).collect::<Vec<_>>()) }).collect();
            hs.into_iter().flat_map(|h| h.join().unwrap()).collect()
        });
        let valid: Vec<bool> = proofs.iter().map(|p| verifier.verify(p.clone()).is_ok()).collect();
        if valid.iter().any(|v| !v) {
            harness_error("a stub corpus proof does not verify under its own verifier");
        }
        let mut keys: Vec<KeyRepr> = u.keys.clone();
        keys.push(([0; 4], 0, 10));
        FakeWorld { circuit, verifier, specs, proofs, valid, keys }
    }
}

impl World for FakeWorld {
    fn corpus_len(&self) -> usize {
        self.proofs.len()
    }
    fn key_of(&self, id: usize) -> KeyRepr {
        (self.specs[id].block, self.specs[id].asset, self.specs[id].fee)
    }
    fn nullifiers_of(&self, id: usize) -> Vec<[u64; 4]> {
        self.specs[id].nullifiers.clone()
    }
    fn is_dummy(&self, id: usize) -> bool {
        self.specs[id].block == [0; 4]
    }
    fn pi_len(&self) -> usize {
        self.circuit.targets.len()
    }
    fn universe_keys(&self) -> Vec<KeyRepr> {
        self.keys.clone()
    }
}

pub struct FakeBackend<'w> {
    w: &'w FakeWorld,
    pool: Option<ProofPool>,
}

impl<'w> Backend for FakeBackend<'w> {
    fn restart(&mut self, p: &PoolParams) {
        self.pool = Some(ProofPool::new(self.w.verifier.clone(), p.n, p.batch, p.pool_limits()).unwrap_or_else(|e| harness_error(&format!("ProofPool::new rejected in-range parameters: {e:#}"))));
    }
    fn push(&mut self, p: Proof) -> anyhow::Result<BatchKey> {
        self.pool.as_mut().unwrap().push(p)
    }
    fn evict_settled(&mut self, s: &HashSet<BytesDigest>) -> usize {
        self.pool.as_mut().unwrap().evict_settled(s)
    }
    fn evict_older_than(&mut self, d: Duration) -> usize {
        self.pool.as_mut().unwrap().evict_older_than(d)
    }
    fn snapshot(&mut self, k: &BatchKey) -> Option<Vec<Proof>> {
        self.pool.as_mut().unwrap().snapshot_batch(k)
    }
    fn remove_bucket(&mut self, k: &BatchKey) -> Vec<Proof> {
        self.pool.as_mut().unwrap().remove_bucket(k)
    }
    fn pool(&self) -> &ProofPool {
        self.pool.as_ref().unwrap()
    }
    fn verifier(&self) -> &VerifierCircuitData<F, C, D> {
        &self.w.verifier
    }
    fn corpus(&self, id: usize) -> &Proof {
        &self.w.proofs[id]
    }
    fn mutate(&self, p: &Proof, m: &Mutation) -> Option<Proof> {
        fake::mutate(&self.w.circuit, p, m)
    }
    fn corpus_valid(&self, id: usize) -> bool {
        self.w.valid[id]
    }
}

// ---------------------------------------------------------------- replay file

#[derive(Serialize, Deserialize)]
struct ReplayFile {
    property: String,
    sim: String,
    mode: String,
    seed: u64,
    run: u64,
    params: PoolParams,
    /// corpus id -> spec, for the proofs the steps use
    corpus: Vec<(usize, Spec)>,
    steps: Vec<Step>,
    /// class and detail of the finding this file reproduces
    class: String,
    detail: String,
    violation: Violation,
    #[serde(default)]
    unminimised_steps: usize,
}

fn used_ids(steps: &[Step]) -> Vec<usize> {
    let mut v: Vec<usize> = steps.iter().filter_map(|s| if let Step::Push { proof, .. } = s { Some(*proof) } else { None }).collect();
    v.sort();
    v.dedup();
    v
}

/// Re-index steps onto a compact corpus and replay them against a world built
/// from just those specs.
fn replay_steps(n: usize, specs: &[(usize, Spec)], params: &PoolParams, steps: &[Step], keep_log: bool) -> (Option<Violation>, Vec<String>) {
    let map: HashMap<usize, usize> = specs.iter().enumerate().map(|(i, (id, _))| (*id, i)).collect();
    let world = FakeWorld::from_specs(fake::build_fake_circuit(n), specs.iter().map(|(_, s)| s.clone()).collect());
    let steps: Vec<Step> = steps
        .iter()
        .map(|s| match s {
            Step::Push { t, proof, mutation, stall_ns } => Step::Push { t: *t, proof: map[proof], mutation: mutation.clone(), stall_ns: *stall_ns },
            o => o.clone(),
        })
        .collect();
    let mut be = FakeBackend { w: &world, pool: None };
    let (v, log, _) = des::replay(&mut be, params, &steps, keep_log);
    (v, log)
}

fn minimise(world: &FakeWorld, out: &RunOutput, class: &str, prefix: &str) -> Vec<Step> {
    let class = class.to_string();
    let params = out.params.pool.clone();
    let mut fails = |cand: &[Step]| -> bool {
        let mut be = FakeBackend { w: world, pool: None };
        let (vv, _, _) = des::replay(&mut be, &params, cand, false);
        vv.and_then(|x| x.for_prefix(prefix).map(|f| f.0 == class)).unwrap_or(false)
    };
    if !fails(&out.steps) {
        // the violation needs the surrounding service state to reproduce from steps alone: keep as is
        return out.steps.clone();
    }
    let (steps, _) = qpz_core::shrink::ddmin(out.steps.clone(), &mut fails, 600);
    // simplify steps: drop mutations, stalls
    let (steps, _) = qpz_core::shrink::simplify_each(
        steps,
        |s| match s {
            Step::Push { t, proof, mutation, stall_ns } => {
                let mut v = vec![];
                if *stall_ns > 0 {
                    v.push(Step::Push { t: *t, proof: *proof, mutation: mutation.clone(), stall_ns: 0 });
                }
                if mutation.is_some() {
                    v.push(Step::Push { t: *t, proof: *proof, mutation: None, stall_ns: *stall_ns });
                }
                v
            }
            Step::EvictSettled { t, nullifiers } if nullifiers.len() > 1 => (0..nullifiers.len())
                .map(|i| {
                    let mut n = nullifiers.clone();
                    n.remove(i);
                    Step::EvictSettled { t: *t, nullifiers: n }
                })
                .collect(),
            _ => vec![],
        },
        &mut fails,
        300,
    );
    steps
}

// ---------------------------------------------------------------- batch

fn classes_of(property: &str) -> &'static str {
    match property {
        "C19" => "admit:",
        "C20" => "inv:",
        "C21" => "custody:",
        "C22" => "budget:",
        _ => "",
    }
}

struct Totals {
    runs: u64,
    events: u64,
    steps: u64,
    sim_ns: u128,
    probes: Counters,
    fired: Counters,
    states: HashSet<u64>,
    triples: HashSet<u64>,
    histories: HashSet<u64>,
    nontrivial: HashSet<u64>,
    fault_free_runs: u64,
    foreign: Counters,
    cost: HashMap<Decision, Vec<u64>>,
    samples: Vec<serde_json::Value>,
}

fn history_hash(steps: &[Step]) -> u64 {
    qpz_core::rng::hash_str(&serde_json::to_string(steps).unwrap())
}

fn median(v: &mut Vec<u64>) -> u64 {
    v.sort();
    v[v.len() / 2]
}

fn main() {
    let args: Vec<String> = std::env::args().collect();
    let mut property = String::from("C19");
    let mut tier_arg: Option<String> = None;
    let mut replay: Option<String> = None;
    let mut mode = String::from("check");
    let mut runs_override: Option<u64> = None;
    let mut real_mode = false;
    let mut i = 1;
    while i < args.len() {
        match args[i].as_str() {
            "--property" => { property = args[i + 1].clone(); i += 1; }
            "--tier" => { tier_arg = Some(args[i + 1].clone()); i += 1; }
            "--replay" => { replay = Some(args[i + 1].clone()); i += 1; }
            "--runs" => { runs_override = args[i + 1].parse().ok(); i += 1; }
            "--dump-logs" => mode = "dump-logs".into(),
            "--real" => real_mode = true,
            "--selftest" => mode = "selftest".into(),
            other => harness_error(&format!("unknown argument {other}")),
        }
        i += 1;
    }
    if let Err(e) = clock::self_test() {
        harness_error(&format!("clock seam self-test failed: {e}"));
    }
    if mode == "selftest" {
        println!("clock seam self-test ok");
        std::process::exit(EXIT_OK);
    }
    let seed = qpz_core::seed_from_env();
    let tier = Tier::from_env_or(tier_arg.as_deref());
    if real_mode {
        std::process::exit(real_main(&property, seed, tier, replay, runs_override, mode == "dump-logs"));
    }
    println!("VERIF_SEED={seed} property={property} tier={} sim=pool mode=fake", tier.as_str());
    let _ = exec::FOCUS_PREFIX.set(classes_of(&property).to_string());

    if let Some(path) = replay {
        let rf: ReplayFile = serde_json::from_str(&std::fs::read_to_string(&path).unwrap_or_else(|e| harness_error(&format!("cannot read {path}: {e}")))).unwrap_or_else(|e| harness_error(&format!("cannot parse {path}: {e}")));
        let (v, log) = replay_steps(rf.params.n, &rf.corpus, &rf.params, &rf.steps, true);
        for l in &log {
            println!("  {l}");
        }
        match v {
            Some(v) => {
                for (c, d) in &v.findings {
                    println!("replayed: at_step={} class={c} {d}", v.at_step);
                }
                if v.findings.iter().any(|(c, _)| *c == rf.class) {
                    println!("VIOLATION property={} replay={path}", rf.property);
                    std::process::exit(EXIT_VIOLATION);
                }
                if v.for_prefix(classes_of(&rf.property)).is_some() {
                    println!("replay produced a different violation class of the same property than recorded ({})", rf.class);
                    println!("VIOLATION property={} replay={path}", rf.property);
                    std::process::exit(EXIT_VIOLATION);
                }
                println!("replay: the recorded finding ({}) does not occur on this tree; other properties' findings above", rf.class);
                std::process::exit(EXIT_OK);
            }
            None => {
                println!("replay: no violation on this tree");
                std::process::exit(EXIT_OK);
            }
        }
    }

    let t0 = qpz_core::real_now_ns();
    let corpus_size = 160;
    let worlds: Vec<FakeWorld> = (1..=3).map(|n| FakeWorld::build(n, seed, corpus_size)).collect();
    let pseed = mix(seed, qpz_core::rng::hash_str(&property));
    let (max_runs, budget) = match tier {
        Tier::Quick => (runs_override.unwrap_or(6000), 0),
        Tier::Thorough => (runs_override.unwrap_or(u64::MAX / 2), qpz_core::budget_s(600)),
    };
    let keep_logs = mode == "dump-logs";
    let prefix = classes_of(&property);

    let cfg = BatchCfg { first_run: 0, max_runs, budget_s: budget, workers: qpz_core::workers(), stop_on_failure: true };
    let results = run_batch(
        &cfg,
        |_| (),
        |_, run| {
            let rseed = mix(pseed, run);
            let mut r = Rng::new(rseed);
            let n = 1 + r.usize(3);
            let world = &worlds[n - 1];
            let params: RunParams = des::draw_params(world, n, &mut r);
            let mut be = FakeBackend { w: world, pool: None };
            let out = des::run(&mut be, world, params, rseed, keep_logs);
            (n, rseed, out)
        },
        |(_, _, out)| out.violation.as_ref().map(|v| v.for_prefix(prefix).is_some()).unwrap_or(false),
    );

    if keep_logs {
        for (run, (_, rseed, out)) in &results {
            println!("RUN {run} seed={rseed} events={} steps={}", out.events, out.steps.len());
            for l in &out.log {
                println!("  {l}");
            }
            if let Some(v) = &out.violation {
                println!("  VIOL {:?} {}", v.classes(), v.at_step);
            }
        }
        std::process::exit(EXIT_OK);
    }

    let mut tot = Totals { runs: 0, events: 0, steps: 0, sim_ns: 0, probes: Counters::default(), fired: Counters::default(), states: HashSet::new(), triples: HashSet::new(), histories: HashSet::new(), nontrivial: HashSet::new(), fault_free_runs: 0, foreign: Counters::default(), cost: HashMap::new(), samples: vec![] };
    let mut first_violation: Option<(u64, usize, u64, &RunOutput, Violation)> = None;
    let _ = &first_violation;
    for (run, (n, rseed, out)) in &results {
        tot.runs += 1;
        tot.events += out.events as u64;
        tot.steps += out.steps.len() as u64;
        tot.sim_ns += out.sim_time_ns as u128;
        tot.probes.merge(&out.probes);
        tot.fired.merge(&out.faults_fired);
        tot.foreign.merge(&out.foreign);
        tot.states.extend(out.states.iter().copied());
        tot.triples.extend(out.triples.iter().copied());
        let hh = history_hash(&out.steps);
        tot.histories.insert(hh);
        if !out.params.faults.any() {
            tot.fault_free_runs += 1;
        }
        let rejections = out.probes.0.iter().filter(|(k, _)| k.starts_with("push_") && k.as_str() != "push_admit").map(|(_, v)| *v).sum::<u64>();
        let evictions = out.probes.get("settlement_evicted_some") + out.probes.get("expiry_evicted_some") + out.probes.get("remove_bucket_some");
        let faults: u64 = out.faults_fired.0.values().sum();
        if out.state_changing && (faults + rejections + evictions) > 0 {
            tot.nontrivial.insert(hh);
        }
        for (d, c) in &out.cost {
            tot.cost.entry(*d).or_default().push(*c);
        }
        if tot.samples.len() < 2 && out.steps.len() > 6 {
            tot.samples.push(json!({"run": run, "seed": rseed, "n_leaves": n, "pool": out.params.pool, "faults": out.params.faults, "first_steps": out.steps.iter().take(14).collect::<Vec<_>>()}));
        }
        if let Some(v) = &out.violation {
            if v.for_prefix(prefix).is_some() {
                if first_violation.is_none() {
                    first_violation = Some((*run, *n, *rseed, out, v.clone()));
                }
            } else {
                for c in v.classes() {
                    tot.foreign.inc(&c);
                }
            }
        }
    }

    // O-cost (C19, hook-independent witness of check ordering): class medians of thread CPU time
    let mut cost_report = serde_json::Map::new();
    let mut cost_violation: Option<String> = None;
    {
        let mut med = |ds: &[Decision]| -> Option<(u64, usize)> {
            let mut v: Vec<u64> = ds.iter().flat_map(|d| tot.cost.get(d).cloned().unwrap_or_default()).collect();
            if v.len() < 30 { None } else { let n = v.len(); Some((median(&mut v), n)) }
        };
        let verified = med(&[Decision::Admit, Decision::VerifyFail]);
        let early = med(&[Decision::Full, Decision::Shape, Decision::Dummy, Decision::Budget]);
        let late = med(&[Decision::BucketCap, Decision::Duplicate]);
        cost_report.insert("median_cpu_ns_verified".into(), json!(verified));
        cost_report.insert("median_cpu_ns_rejected_before_verification".into(), json!(early));
        cost_report.insert("median_cpu_ns_rejected_after_verification".into(), json!(late));
        if let (Some((v, _)), Some((e, _))) = (verified, early) {
            if e * 4 > v {
                cost_violation = Some(format!("pushes the rules reject before verification cost a median {e} ns of CPU, verified pushes {v} ns: verification appears to run before the stateless checks / budget test"));
            }
        }
        if let (Some((v, _)), Some((l, _))) = (verified, late) {
            if l * 2 < v {
                cost_violation = Some(format!("pushes the rules reject at the bucket-limit/duplicate test cost a median {l} ns of CPU, verified pushes {v} ns: those rejections appear reachable without verification"));
            }
        }
    }

    let wall = (qpz_core::real_now_ns() - t0) as f64 / 1e9;
    let mut violations = 0u64;
    let mut exit = EXIT_OK;
    let mut replay_path = String::new();
    if let Some((run, n, rseed, out, v)) = &first_violation {
        violations = 1;
        let world = &worlds[*n - 1];
        let (class, detail) = v.for_prefix(prefix).cloned().unwrap();
        let min_steps = minimise(world, out, &class, prefix);
        let ids = used_ids(&min_steps);
        let corpus: Vec<(usize, Spec)> = ids.iter().map(|i| (*i, world.specs[*i].clone())).collect();
        // replay the minimised file from scratch; it must fail the same way
        let (vv, _) = replay_steps(*n, &corpus, &out.params.pool, &min_steps, false);
        let (steps, vfinal) = match vv {
            Some(x) if x.for_prefix(prefix).map(|f| f.0 == class).unwrap_or(false) => (min_steps, x),
            _ => (out.steps.clone(), v.clone()),
        };
        let (class, detail) = vfinal.for_prefix(prefix).cloned().unwrap_or((class, detail));
        let ids = used_ids(&steps);
        let corpus: Vec<(usize, Spec)> = ids.iter().map(|i| (*i, world.specs[*i].clone())).collect();
        let rf = ReplayFile { property: property.clone(), sim: "pool".into(), mode: "fake".into(), seed, run: *run, params: out.params.pool.clone(), corpus, steps, class: class.clone(), detail: detail.clone(), violation: vfinal.clone(), unminimised_steps: out.steps.len() };
        replay_path = format!("{}/{property}-{rseed}.json", qpz_core::replay_dir());
        std::fs::write(&replay_path, serde_json::to_string_pretty(&rf).unwrap()).unwrap();
        println!("violation class={class} run={run} seed={rseed} steps={} (from {}): {detail}", rf.steps.len(), out.steps.len());
        println!("VIOLATION property={property} replay={replay_path}");
        exit = EXIT_VIOLATION;
    } else if property == "C19" {
        if let Some(msg) = &cost_violation {
            violations = 1;
            
            replay_path = format!("{}/C19-cost-{seed}.json", qpz_core::replay_dir());
            std::fs::write(&replay_path, serde_json::to_string_pretty(&json!({"property": "C19", "sim": "pool", "class": "admit:cost", "seed": seed, "detail": msg, "cost": cost_report, "how_to_replay": "re-run the C19 check with the same VERIF_SEED; the class medians are measured over the whole batch"})).unwrap()).unwrap();
            println!("violation class=admit:cost: {msg}");
            println!("VIOLATION property=C19 replay={replay_path}");
            exit = EXIT_VIOLATION;
        }
    }

    let runs_per_hour = tot.runs as f64 / wall * 3600.0;
    let mut extra = serde_json::Map::new();
    extra.insert("simulated_runs".into(), json!(tot.runs));
    extra.insert("runs_per_hour".into(), json!(runs_per_hour.round()));
    extra.insert("seeds_per_hour".into(), json!(runs_per_hour.round()));
    extra.insert("simulated_time_hours".into(), json!(tot.sim_ns as f64 / 3.6e12));
    extra.insert("events".into(), json!(tot.events));
    extra.insert("pool_operations".into(), json!(tot.steps));
    extra.insert("fault_free_runs".into(), json!(tot.fault_free_runs));
    extra.insert("fault_injecting_runs".into(), json!(tot.runs - tot.fault_free_runs));
    extra.insert("faults_fired".into(), tot.fired.to_json());
    extra.insert("reach_probes".into(), tot.probes.to_json());
    extra.insert("distinct_abstract_states".into(), json!(tot.states.len()));
    extra.insert("distinct_op_outcome_class_triples".into(), json!(tot.triples.len()));
    extra.insert("distinct_histories".into(), json!(tot.histories.len()));
    extra.insert("runs_ended_by_another_propertys_oracle".into(), tot.foreign.to_json());
    extra.insert("cpu_cost_oracle".into(), serde_json::Value::Object(cost_report));
    extra.insert("components".into(), json!({
        "real": ["ProofPool (all of pool.rs)", "plonky2 verifier", "preflight_private_batch_proofs (via verif_preflight)", "try_4_felts_to_bytes"],
        "stub": ["private-batch circuit: 2-gate stub circuit with the real public-input layout, N in {1,2,3} (as in the repository's own pool tests)"],
        "simulated": ["clock (clock_gettime interposed)", "clients", "network", "chain and rival miner", "proving jobs", "operator", "miner stalls and restarts"]
    }));
    if !replay_path.is_empty() {
        extra.insert("replay".into(), json!(replay_path));
    }
    let ev = Evidence {
        property_id: property.clone(),
        tier: tier.as_str().into(),
        seed,
        level: "exploration".into(),
        evaluations: tot.runs,
        distinct_nontrivial: tot.nontrivial.len() as u64,
        rule: "one evaluation = one seeded run of the miner-service simulation (40-120 events) against the real ProofPool under the virtual clock; distinct = distinct hash of the realised pool-boundary operation sequence; non-trivial = the run admitted at least one proof and contained at least one injected fault, rejection or eviction".into(),
        samples: tot.samples.clone(),
        exhaustive: None,
        extra,
        assumptions: vec![
            "stub circuit stands in for the private-batch circuit (pool logic is independent of what the verifier proves; real mode covers the canonical circuits)".into(),
            "pool operations are atomic (the API takes &mut self; the documented deployment serialises it behind one lock)".into(),
            "ground truth of verification is the plonky2 verifier on the delivered message".into(),
        ],
        wall_s: wall,
        violations,
    };
    ev.write(&qpz_core::evidence_path(&property)).unwrap_or_else(|e| harness_error(&format!("cannot write evidence: {e}")));
    println!("runs={} events={} ops={} states={} nontrivial_histories={} wall={:.1}s foreign={:?}", tot.runs, tot.events, tot.steps, tot.states.len(), tot.nontrivial.len(), wall, tot.foreign.0);
    std::process::exit(exit);
}

#[derive(Serialize, Deserialize)]
struct RealReplayFile {
    property: String,
    sim: String,
    mode: String,
    seed: u64,
    run_seed: u64,
    shape: (usize, usize),
    class: String,
    detail: String,
    /// 0 = drawn, 1 = forced split, 2 = non-native asset (see real::run_real)
    #[serde(default)]
    plan: u8,
    /// the run used the stand-in leaf circuit (freeleaf.rs)
    #[serde(default)]
    stand_in_leaf: bool,
}

fn plan_of(run: u64, shapes: usize) -> u8 {
    if (run as usize) < shapes {
        1
    } else if run as usize == shapes {
        2
    } else {
        0
    }
}

fn real_main(property: &str, seed: u64, tier: Tier, replay: Option<String>, runs_override: Option<u64>, dump: bool) -> i32 {
    println!("VERIF_SEED={seed} property={property} tier={} sim=pool mode=real", tier.as_str());
    // several runs prove side by side: bound each rayon pool (must happen before rayon starts)
    std::env::set_var("RAYON_NUM_THREADS", "4");
    let (c18, c36) = (property == "C18", property == "C36");
    if !c18 && !c36 {
        harness_error("real mode serves C18 and C36");
    }
    let prefix = if c18 { "address:" } else { "conserve:" };
    let t0 = qpz_core::real_now_ns();
    let quick = tier == Tier::Quick;
    let replay_file: Option<RealReplayFile> = replay.as_ref().map(|p| serde_json::from_str(&std::fs::read_to_string(p).unwrap_or_else(|e| harness_error(&format!("cannot read {p}: {e}")))).unwrap_or_else(|e| harness_error(&format!("bad replay file: {e}"))));
    let shapes: Vec<(usize, usize)> = match &replay_file {
        Some(rf) => vec![rf.shape],
        None => {
            if quick { if c36 { vec![(2, 2), (2, 1)] } else { vec![(2, 2), (1, 1)] } } else { vec![(2, 2), (1, 1), (2, 1), (1, 2), (3, 2), (2, 3), (4, 2)] }
        }
    };
    // observers (C18) are built for every shape in the thorough tier, for the cheapest shape only in quick
    let replay_is_set = replay_file.is_some();
    let arts: Vec<real::Artifacts> = {
        let _gag = qpz_core::Gag::new();
        std::thread::scope(|s| {
            let hs: Vec<_> = shapes.iter().map(|(n, m)| s.spawn(move || real::build_artifacts(*n, *m, seed, c18 && (!quick || (*n, *m) == (1, 1) || replay_is_set)))).collect();
            hs.into_iter().map(|h| h.join().unwrap_or_else(|_| harness_error("artifact generation panicked"))).collect()
        })
    };
    println!("artifacts for {:?} built at {:.1}s", shapes, (qpz_core::real_now_ns() - t0) as f64 / 1e9);
    if let Some(rf) = replay_file.as_ref().filter(|rf| rf.stand_in_leaf) {
        let ctx = freeleaf::build_ctx(rf.shape.0, rf.shape.1, seed);
        let out = freeleaf::run_one(&ctx, rf.run_seed, rf.plan);
        for (c, d) in &out.findings {
            println!("replayed: class={c} {d}");
        }
        let _ = std::fs::remove_dir_all(format!("/dev/shm/qpz-pool-{}", std::process::id()));
        if out.findings.iter().any(|(c, _)| c.starts_with(prefix)) {
            println!("VIOLATION property={property} replay={}", replay.unwrap());
            return EXIT_VIOLATION;
        }
        println!("replay: no violation on this tree");
        return EXIT_OK;
    }
    if let Some(rf) = &replay_file {
        let out = real::run_real(&arts[0], rf.run_seed, c18, c36, rf.plan);
        for l in &out.log {
            println!("  {l}");
        }
        for f in &out.findings {
            println!("replayed: class={} {}", f.class, f.detail);
        }
        let _ = std::fs::remove_dir_all(format!("/dev/shm/qpz-pool-{}", std::process::id()));
        if out.findings.iter().any(|f| f.class.starts_with(prefix)) {
            println!("VIOLATION property={property} replay={}", replay.unwrap());
            return EXIT_VIOLATION;
        }
        println!("replay: no violation on this tree");
        return EXIT_OK;
    }
    let (max_runs, budget) = if quick { (runs_override.unwrap_or(4), 0) } else { (runs_override.unwrap_or(u64::MAX / 2), qpz_core::budget_s(900)) };
    let pseed = mix(seed, qpz_core::rng::hash_str(property));
    let cfg = BatchCfg { first_run: 0, max_runs, budget_s: budget, workers: 4, stop_on_failure: true };
    let results = run_batch(
        &cfg,
        |_| (),
        |_, run| {
            let rseed = mix(pseed, run);
            let ai = (run as usize) % arts.len();
            // the first run of every shape uses the forced split (padding at both layers), the next
            // one of the first shape a non-native asset (full private batches only); the rest is drawn
            let plan = plan_of(run, arts.len());
            let out = real::run_real(&arts[ai], rseed, c18, c36, plan);
            (rseed, ai, out)
        },
        |(_, _, out)| out.findings.iter().any(|f| f.class.starts_with(prefix)),
    );
    let _ = std::fs::remove_dir_all(format!("/dev/shm/qpz-pool-{}", std::process::id()));
    let mut probes = Counters::default();
    let mut faults = Counters::default();
    let mut histories: HashSet<u64> = HashSet::new();
    let mut nontrivial: HashSet<u64> = HashSet::new();
    let (mut publics, mut privates, mut leaves) = (0u64, 0u64, 0u64);
    let mut samples = vec![];
    let mut first: Option<(u64, usize, real::RealFinding)> = None;
    let mut foreign = Counters::default();
    for (run, (rseed, ai, out)) in &results {
        probes.merge(&out.probes);
        faults.merge(&out.faults);
        publics += out.public_proofs;
        privates += out.private_proofs;
        leaves += out.leaf_proofs;
        histories.insert(out.history);
        if out.public_proofs > 0 {
            nontrivial.insert(out.history);
        }
        if dump {
            println!("RUN {run} seed={rseed} shape={:?}", shapes[*ai]);
            for l in &out.log {
                println!("  {l}");
            }
        }
        if let Some(s) = &out.sample {
            if samples.len() < 3 {
                samples.push(json!({"run": run, "seed": rseed, "case": s}));
            }
        }
        for f in &out.findings {
            if f.class.starts_with(prefix) {
                if first.is_none() {
                    first = Some((*rseed, *ai, f.clone()));
                }
            } else {
                foreign.inc(&f.class);
            }
        }
    }
    if dump {
        return EXIT_OK;
    }
    // ---- C36 over the stand-in leaf circuit: statements real leaves cannot be steered into ----
    let mut stand_in_first: Option<(u64, (usize, usize), String, String, u8)> = None;
    let mut stand_in_runs = 0u64;
    if c36 && first.is_none() {
        let fshapes: Vec<(usize, usize)> = if quick { vec![(2, 2)] } else { vec![(2, 2), (3, 2), (2, 3), (1, 1)] };
        for (fi, (fnn, fm)) in fshapes.iter().enumerate() {
            let ctx = freeleaf::build_ctx(*fnn, *fm, seed);
            let fcfg = BatchCfg { first_run: 0, max_runs: if quick { 8 } else { u64::MAX / 2 }, budget_s: if quick { 0 } else { qpz_core::budget_s(900) / 4 / fshapes.len() as u64 }, workers: 4, stop_on_failure: true };
            let fres = run_batch(&fcfg, |_| (), |_, run| { let rs = mix(pseed, 0xF1EE_0000 + ((fi as u64) << 20) + run); (rs, (run % 8) as u8, freeleaf::run_one(&ctx, rs, (run % 8) as u8)) }, |(_, _, o)| o.findings.iter().any(|(c, _)| c.starts_with(prefix)));
            for (_, (rs, hint, o)) in &fres {
                stand_in_runs += 1;
                probes.merge(&o.probes);
                publics += o.public_proofs;
                privates += o.private_proofs;
                leaves += o.leaf_proofs;
                histories.insert(o.history);
                nontrivial.insert(o.history);
                if samples.len() < 4 {
                    if let Some(sm) = &o.sample {
                        samples.push(json!({"seed": rs, "case": sm}));
                    }
                }
                if stand_in_first.is_none() {
                    if let Some((c, d)) = o.findings.iter().find(|(c, _)| c.starts_with(prefix)) {
                        stand_in_first = Some((*rs, (*fnn, *fm), c.clone(), d.clone(), *hint));
                    }
                }
            }
        }
    }
    let wall = (qpz_core::real_now_ns() - t0) as f64 / 1e9;
    let mut exit = EXIT_OK;
    let mut replay_path = String::new();
    if let Some((rs, shape, class, detail, hint)) = &stand_in_first {
        let rf = RealReplayFile { property: property.into(), sim: "pool".into(), mode: "real".into(), seed, run_seed: *rs, shape: *shape, class: class.clone(), detail: detail.clone(), plan: *hint, stand_in_leaf: true };
        replay_path = format!("{}/{property}-{rs}.json", qpz_core::replay_dir());
        std::fs::write(&replay_path, serde_json::to_string_pretty(&rf).unwrap()).unwrap();
        println!("violation class={class} seed={rs} shape={shape:?}: {detail}");
        println!("VIOLATION property={property} replay={replay_path}");
        exit = EXIT_VIOLATION;
    }
    if let Some((rseed, ai, f)) = &first {
        let rf = RealReplayFile { property: property.into(), sim: "pool".into(), mode: "real".into(), seed, run_seed: *rseed, shape: shapes[*ai], class: f.class.clone(), detail: f.detail.clone(), stand_in_leaf: false, plan: results.iter().find(|(_, (s, _, _))| s == rseed).map(|(run, _)| plan_of(*run, arts.len())).unwrap_or(0) };
        replay_path = format!("{}/{property}-{rseed}.json", qpz_core::replay_dir());
        std::fs::write(&replay_path, serde_json::to_string_pretty(&rf).unwrap()).unwrap();
        println!("violation class={} seed={rseed} shape={:?}: {}", f.class, shapes[*ai], f.detail);
        println!("VIOLATION property={property} replay={replay_path}");
        exit = EXIT_VIOLATION;
    }
    if exit == EXIT_OK && publics == 0 {
        harness_error("no public-batch proof was produced in any run: nothing was checked");
    }
    let n = results.len() as u64;
    let mut extra = serde_json::Map::new();
    extra.insert("simulated_runs".into(), json!(n));
    extra.insert("stand_in_leaf_runs".into(), json!(stand_in_runs));
    extra.insert("runs_per_hour".into(), json!((n as f64 / wall * 3600.0).round()));
    extra.insert("shapes_n_m".into(), json!(shapes));
    extra.insert("real_leaf_proofs".into(), json!(leaves));
    extra.insert("real_private_batch_proofs".into(), json!(privates));
    extra.insert("real_public_batch_proofs".into(), json!(publics));
    extra.insert("faults_fired".into(), faults.to_json());
    extra.insert("reach_probes".into(), probes.to_json());
    extra.insert("findings_of_other_properties".into(), foreign.to_json());
    extra.insert("simulated_time".into(), json!("virtual milliseconds of network delay only; proving is real work"));
    extra.insert("components".into(), json!({
        "real": ["canonical leaf, private-batch and public-batch circuits rebuilt from the working tree", "artifacts generated by generate_all_circuit_binaries", "WormholeProver, PrivateBatchProver (commit with the RNG seam installed), PublicBatchAggregator (pool, snapshot, ProvingContext::prove_batch, verify)", "plonky2 proving and verification"],
        "stub": [],
        "simulated": ["clients, network (drop, duplicate, reorder, corruption of gossiped public proofs), two miners with different addresses, the chain (canonical verifier rebuilt from source)"]
    }));
    if !replay_path.is_empty() {
        extra.insert("replay".into(), json!(replay_path));
    }
    let (rule, assumptions): (&str, Vec<String>) = if c18 {
        ("one evaluation = one simulated run in which two aggregators with different addresses (random, differing in one felt, or all-zero) load the same generated artifacts, pool real private-batch proofs, prove public batches and gossip them; every returned proof is checked at the chain, at its producer and at the other miner, as is and corrupted in flight; distinct = distinct event log (public inputs only); non-trivial = at least one public-batch proof was produced", vec!["proofs 'valid under another address' are obtained the only way they can be: produced by the other miner in the run".into()])
    } else {
        ("one evaluation = one simulated run of the two-layer pipeline on honest inputs: deposits in a 4-ary tree under a real header, real leaf proofs split into padded private batches (slot order and dummy preimages from the RNG seam), pooled, snapshot and proved into public batches; each public proof the chain verifies is compared with a native oracle (value per account, nullifier multiset incl. H(H(u)) of dummy preimages, zero padding segments); distinct = distinct event log; non-trivial = at least one public-batch proof was produced", vec!["honest executions only: says nothing about adversarial witnesses (C06-C13 are not applicable to this technique)".into(), "shapes (N, M): quick (2,2) and (2,1); thorough adds (1,1), (2,1), (1,2), (3,2), (2,3), (4,2)".into()])
    };
    let ev = Evidence {
        property_id: property.into(),
        tier: tier.as_str().into(),
        seed,
        level: "exploration".into(),
        evaluations: n,
        distinct_nontrivial: nontrivial.len() as u64,
        rule: rule.into(),
        samples,
        exhaustive: None,
        extra,
        assumptions,
        wall_s: wall,
        violations: if exit == EXIT_OK { 0 } else { 1 },
    };
    ev.write(&qpz_core::evidence_path(property)).unwrap_or_else(|e| harness_error(&format!("cannot write evidence: {e}")));
    println!("{property}: runs={n} leaf={leaves} private={privates} public={publics} wall={wall:.1}s");
    exit
}
