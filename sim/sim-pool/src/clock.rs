//! Clock seam: `clock_gettime` defined in the executable. On a thread that has
//! entered simulation it answers with the virtual time; everywhere else (rayon
//! workers, the runtime) it forwards to the kernel with a raw syscall.
use std::cell::Cell;

/// Virtual times are offset so `Instant` arithmetic never underflows.
pub const BASE_NS: i64 = 1_000_000 * 1_000_000_000;

thread_local! {
    static VNOW: Cell<i64> = const { Cell::new(-1) };
    static READS: Cell<u64> = const { Cell::new(0) };
}

#[no_mangle]
pub unsafe extern "C" fn clock_gettime(clk: libc::clockid_t, ts: *mut libc::timespec) -> libc::c_int {
    if clk == libc::CLOCK_MONOTONIC
        || clk == libc::CLOCK_REALTIME
        || clk == libc::CLOCK_BOOTTIME
        || clk == libc::CLOCK_MONOTONIC_RAW
    {
        if let Ok(v) = VNOW.try_with(|c| c.get()) {
            if v >= 0 {
                let _ = READS.try_with(|c| c.set(c.get() + 1));
                let t = BASE_NS + v;
                (*ts).tv_sec = t / 1_000_000_000;
                (*ts).tv_nsec = t % 1_000_000_000;
                return 0;
            }
        }
    }
    libc::syscall(libc::SYS_clock_gettime, clk as libc::c_long, ts) as libc::c_int
}

/// Enter simulation on this thread at virtual time `ns`.
pub fn set(ns: u64) {
    VNOW.with(|c| c.set(ns as i64));
}
pub fn now() -> u64 {
    VNOW.with(|c| c.get().max(0) as u64)
}
pub fn advance(ns: u64) {
    VNOW.with(|c| c.set(c.get().max(0) + ns as i64));
}
/// Leave simulation on this thread (real clock again).
pub fn leave() {
    VNOW.with(|c| c.set(-1));
}
pub fn reads() -> u64 {
    READS.with(|c| c.get())
}

/// Seam self-test: `Instant` must follow the virtual clock exactly on this
/// thread and must not on another thread.
pub fn self_test() -> Result<(), String> {
    use std::time::{Duration, Instant};
    set(0);
    let r0 = reads();
    let a = Instant::now();
    advance(3_600_000_000_000);
    let b = Instant::now();
    let d = b.duration_since(a);
    if d != Duration::from_secs(3600) {
        leave();
        return Err(format!("Instant did not follow the virtual clock: saw {d:?} for 1h"));
    }
    advance(1);
    let c = Instant::now();
    if c.duration_since(b) != Duration::from_nanos(1) {
        leave();
        return Err("Instant did not resolve a 1 ns virtual step".into());
    }
    if reads() - r0 != 3 {
        leave();
        return Err(format!("expected 3 intercepted clock reads, saw {}", reads() - r0));
    }
    let other = std::thread::spawn(|| {
        let a = Instant::now();
        let b = Instant::now();
        b.duration_since(a) < Duration::from_secs(60)
    })
    .join()
    .unwrap_or(false);
    leave();
    let ra = Instant::now();
    let _ = ra;
    if !other {
        return Err("non-simulator thread did not see a real clock".into());
    }
    Ok(())
}
