//! SIM-D: allocator seam for secret material (C33, DESIGN.md section 8).
//!
//! The process allocator is owned by the simulator. `realloc` resolves the one
//! environmental choice the property depends on adversarially (a growing buffer
//! always moves, so the stale copy is freed through the scanning `dealloc`), and
//! every freed block is scanned for every secret that is live in the run.
use plonky2::field::types::{Field, PrimeField64};
use qpz_core::evidence::{Counters, Evidence};
use qpz_core::rng::{mix, Rng};
use qpz_core::runner::{run_batch, BatchCfg};
use qpz_core::{harness_error, Tier, EXIT_OK, EXIT_VIOLATION};
use serde::{Deserialize, Serialize};
use serde_json::json;
use std::alloc::{GlobalAlloc, Layout, System};
use std::cell::Cell;
use std::collections::HashSet;
use wormhole_circuit::block_header::header::DIGEST_LOGS_SIZE;
use wormhole_circuit::inputs::{CircuitInputs, PrivateCircuitInputs};
use wormhole_circuit::nullifier::{Nullifier, NULLIFIER_SALT};
use wormhole_circuit::sensitive::{Secret, SensitiveFelts};
use wormhole_circuit::unspendable_account::{UnspendableAccount, UNSPENDABLE_SALT};
use wormhole_inputs::{BytesDigest, PublicCircuitInputs};
use zk_circuits_common::circuit::F;
use zk_circuits_common::utils::{bytes_to_digest, digest_to_bytes, string_to_felts, u64_to_felts};

const MAX_SECRETS: usize = 6;
const MAX_EXEMPT: usize = 24;
const EXEMPT_LEN: usize = 128;

/// Per-thread scanner state; fixed-size so the allocator hook never allocates.
struct Scan {
    secrets: [[u8; 32]; MAX_SECRETS],
    n_secrets: usize,
    exempt: [[u8; EXEMPT_LEN]; MAX_EXEMPT],
    exempt_len: [usize; MAX_EXEMPT],
    n_exempt: usize,
    cur_op: usize,
    /// first unexempted hit: (block size, secret index, op index, offset)
    hit: Option<(usize, usize, usize, usize)>,
    frees_scanned: u64,
    bytes_scanned: u64,
    exempt_hits: u64,
    reallocs_moved: u64,
}

impl Scan {
    const fn new() -> Scan {
        Scan { secrets: [[0; 32]; MAX_SECRETS], n_secrets: 0, exempt: [[0; EXEMPT_LEN]; MAX_EXEMPT], exempt_len: [0; MAX_EXEMPT], n_exempt: 0, cur_op: 0, hit: None, frees_scanned: 0, bytes_scanned: 0, exempt_hits: 0, reallocs_moved: 0 }
    }
}

thread_local! {
    static SCAN: Cell<*mut Scan> = const { Cell::new(std::ptr::null_mut()) };
}

struct SimAlloc;

unsafe fn scan_block(ptr: *mut u8, size: usize) {
    let Ok(p) = SCAN.try_with(|c| c.get()) else { return };
    if p.is_null() || size < 32 {
        return;
    }
    let s = &mut *p;
    s.frees_scanned += 1;
    s.bytes_scanned += size as u64;
    let block = core::slice::from_raw_parts(ptr, size);
    for si in 0..s.n_secrets {
        let pat = &s.secrets[si];
        let first = pat[0];
        let mut i = 0;
        while i + 32 <= size {
            if block[i] == first && &block[i..i + 32] == pat {
                // the documented carve-out: the block is byte-for-byte an upstream pad10_to_rate image
                let exempt = (0..s.n_exempt).any(|e| s.exempt_len[e] == size && &s.exempt[e][..size] == block);
                if exempt {
                    s.exempt_hits += 1;
                } else if s.hit.is_none() {
                    s.hit = Some((size, si, s.cur_op, i));
                }
                break;
            }
            i += 1;
        }
    }
}

unsafe impl GlobalAlloc for SimAlloc {
    unsafe fn alloc(&self, layout: Layout) -> *mut u8 {
        // While simulating, fresh blocks start zeroed: recycled memory may hold stale copies of the
        // harness's own secret buffers (freed while scanning was off), and uninitialised capacity
        // would carry them into blocks the code under test never wrote a secret to.
        if SCAN.try_with(|c| !c.get().is_null()).unwrap_or(false) {
            return System.alloc_zeroed(layout);
        }
        System.alloc(layout)
    }
    unsafe fn alloc_zeroed(&self, layout: Layout) -> *mut u8 {
        System.alloc_zeroed(layout)
    }
    unsafe fn dealloc(&self, ptr: *mut u8, layout: Layout) {
        scan_block(ptr, layout.size());
        System.dealloc(ptr, layout)
    }
    unsafe fn realloc(&self, ptr: *mut u8, layout: Layout, new_size: usize) -> *mut u8 {
        // Adversarial placement: growth (or shrink) always moves. The old block is released
        // through the scanning dealloc; delegating to the system realloc would let libc free a
        // moved block unseen.
        let simulating = SCAN.try_with(|c| !c.get().is_null()).unwrap_or(false);
        if !simulating {
            return System.realloc(ptr, layout, new_size);
        }
        let new_layout = Layout::from_size_align_unchecked(new_size, layout.align());
        let new = System.alloc_zeroed(new_layout);
        if new.is_null() {
            return new;
        }
        core::ptr::copy_nonoverlapping(ptr, new, layout.size().min(new_size));
        if let Ok(p) = SCAN.try_with(|c| c.get()) {
            if !p.is_null() {
                (*p).reallocs_moved += 1;
            }
        }
        self.dealloc(ptr, layout);
        new
    }
}

#[global_allocator]
static ALLOC: SimAlloc = SimAlloc;

// ------------------------------------------------------------------ workload

#[derive(Clone, Debug, Serialize, Deserialize, PartialEq, Eq, Hash)]
#[serde(rename_all = "snake_case")]
enum Op {
    /// Secret::new on a caller buffer (valid digest)
    SecretNew { s: usize },
    /// Secret::new on a buffer with an out-of-range limb derived from the secret
    SecretNewInvalid { s: usize },
    SecretFromDigest { s: usize },
    SecretFromFelts { s: usize },
    SecretTryFromArray { s: usize },
    /// expose_* and equality on a live secret-bearing object
    Expose { obj: usize },
    /// `pd`: class of the caller-supplied PUBLIC digest stored next to the secret (see `public_digest`)
    NullifierNew { s: usize, tc: u64, #[serde(default)] pd: u8 },
    NullifierFromPreimage { s: usize, tc: u64 },
    NullifierFromInputs { s: usize, tc: u64 },
    AccountNew { s: usize, #[serde(default)] pd: u8 },
    AccountFromSecret { s: usize },
    AccountFromInputs { s: usize, tc: u64 },
    InputsNew { s: usize, tc: u64 },
    /// to_bytes of object `obj`; the scrubbing buffer joins the pool
    ToBytes { obj: usize },
    ToFelts { obj: usize },
    /// from_bytes on a serialisation held in the pool (kind: 0 valid, 1 wrong length, 2 non-canonical secret limb, 3 truncated)
    FromBytes { obj: usize, kind: u8 },
    /// from_field_elements (kind: 0 valid, 1 wrong length, 2 oversized transfer-count limb)
    FromFelts { obj: usize, kind: u8 },
    /// move object `obj` into a Box (heap residency), keep it in the pool
    BoxIt { obj: usize },
    Drop { obj: usize },
}

/// Pool entries are small (tag + pointer): every secret-bearing value lives in its own
/// exactly-sized heap block, so no stale stack bytes travel into the heap inside the padding of
/// a large enum (that would be the harness's own leak, not the code's).
enum Obj {
    Secret(Box<Secret>),
    Nullifier(Box<Nullifier>),
    Account(Box<UnspendableAccount>),
    Inputs(Box<CircuitInputs>),
    Bytes(zeroize::Zeroizing<Vec<u8>>, bool),
    Felts(SensitiveFelts, bool),
}

/// The public digest a caller hands to `Nullifier::new` / `UnspendableAccount::new`. It is not secret, but it
/// leads the buffers `to_bytes` / `to_field_elements` return, so code that decides anything about the scrub
/// from the buffer's own contents meets these values first. 0: ordinary constant; 1: all-zero placeholder;
/// 2: low limb zero; 3: only the low limb non-zero; 4: last limb zero; 5: every limb the value one.
fn public_digest(pd: u8, base: u8) -> BytesDigest {
    let mut b = [base; 32];
    match pd {
        1 => b = [0u8; 32],
        2 => b[..8].fill(0),
        3 => b[8..].fill(0),
        4 => b[24..].fill(0),
        5 => {
            b = [0u8; 32];
            for l in 0..4 {
                b[l * 8] = 1;
            }
        }
        _ => {}
    }
    BytesDigest::try_from(b).expect("canonical public digest")
}

fn felts_le_bytes(f: &[F]) -> Vec<u8> {
    f.iter().flat_map(|x| x.to_canonical_u64().to_le_bytes()).collect()
}

/// The two upstream `pad10_to_rate` images for (secret, transfer count).
fn upstream_pads(secret: BytesDigest, tc: u64) -> [Vec<u8>; 2] {
    let sf = bytes_to_digest(secret);
    let mut a: Vec<F> = string_to_felts(NULLIFIER_SALT).unwrap();
    a.extend(sf);
    a.extend(u64_to_felts(tc));
    a.push(F::ONE);
    a.resize(16, F::ZERO);
    let mut b: Vec<F> = string_to_felts(UNSPENDABLE_SALT).unwrap();
    b.extend(sf);
    b.push(F::ONE);
    b.resize(8, F::ZERO);
    [felts_le_bytes(&a), felts_le_bytes(&b)]
}

fn make_inputs(secret: BytesDigest, tc: u64) -> CircuitInputs {
    let d = |b: u8| BytesDigest::try_from([b; 32]).unwrap();
    CircuitInputs {
        private: PrivateCircuitInputs {
            secret: Secret::from(secret),
            transfer_count: tc,
            unspendable_account: d(9),
            parent_hash: d(5),
            state_root: d(3),
            extrinsics_root: d(4),
            digest: [0xEE; DIGEST_LOGS_SIZE],
            input_amount: 1000,
            zk_tree_root: [0u8; 32],
            zk_merkle_siblings: vec![[[7u8; 32]; 3]; 2],
            zk_merkle_positions: vec![1, 2],
        },
        public: PublicCircuitInputs { asset_id: 0, output_amount_1: 900, output_amount_2: 99, volume_fee_bps: 10, nullifier: d(1), block_hash: d(0), exit_account_1: d(2), exit_account_2: d(3), block_number: 1 },
    }
}

#[derive(Clone, Debug, Serialize, Deserialize)]
struct Sequence {
    secrets: Vec<[u8; 32]>,
    tcs: Vec<u64>,
    ops: Vec<Op>,
}

fn random_secret(rng: &mut Rng, structured: bool) -> [u8; 32] {
    if structured {
        match rng.below(3) {
            0 => {
                // limbs p-1
                let mut b = [0u8; 32];
                for l in 0..4 {
                    b[l * 8..l * 8 + 8].copy_from_slice(&0xFFFF_FFFF_0000_0000u64.to_le_bytes());
                }
                b
            }
            1 => {
                // one repeated (ASCII) byte
                [0x40 + rng.below(0x3f) as u8; 32]
            }
            _ => {
                // mostly-zero limbs with one marker byte each
                let mut b = [0u8; 32];
                for l in 0..4 {
                    b[l * 8 + (rng.below(7) as usize)] = 1 + rng.below(200) as u8;
                }
                b
            }
        }
    } else {
        loop {
            let mut b = [0u8; 32];
            rng.fill(&mut b);
            for l in 0..4 {
                b[l * 8 + 7] &= 0x7f;
            }
            if b.iter().filter(|x| **x == 0).count() < 4 {
                return b;
            }
        }
    }
}

fn random_sequence(rng: &mut Rng) -> Sequence {
    let ns = rng.range(1, 3) as usize;
    let structured = rng.chance(1, 5);
    let secrets: Vec<[u8; 32]> = (0..ns).map(|_| random_secret(rng, structured)).collect();
    let tcs: Vec<u64> = (0..2).map(|_| *rng.pick(&[0u64, 1, 42, u32::MAX as u64, u64::MAX, 1 << 40])).collect();
    let n = rng.range(5, 60) as usize;
    let mut ops = vec![];
    for _ in 0..n {
        let s = rng.usize(ns);
        let tc = tcs[rng.usize(tcs.len())];
        let obj = rng.usize(12);
        let op = match rng.below(26) {
            0 => Op::SecretNew { s },
            1 => Op::SecretNewInvalid { s },
            2 => Op::SecretFromDigest { s },
            3 => Op::SecretFromFelts { s },
            4 => Op::SecretTryFromArray { s },
            5 => Op::Expose { obj },
            6 => Op::NullifierNew { s, tc, pd: rng.below(6) as u8 },
            7 | 8 => Op::NullifierFromPreimage { s, tc },
            9 => Op::NullifierFromInputs { s, tc },
            10 => Op::AccountNew { s, pd: rng.below(6) as u8 },
            11 | 12 => Op::AccountFromSecret { s },
            13 => Op::AccountFromInputs { s, tc },
            14 => Op::InputsNew { s, tc },
            15 | 16 => Op::ToBytes { obj },
            17 | 18 => Op::ToFelts { obj },
            19 | 20 => Op::FromBytes { obj, kind: rng.below(7) as u8 },
            21 | 22 => Op::FromFelts { obj, kind: rng.below(5) as u8 },
            23 => Op::BoxIt { obj },
            _ => Op::Drop { obj },
        };
        ops.push(op);
    }
    Sequence { secrets, tcs, ops }
}

#[derive(Clone, Debug, Default)]
struct RunOut {
    findings: Vec<(String, String)>,
    probes: Counters,
    ops_run: usize,
    history: u64,
    error_paths: u64,
}

/// Execute a sequence with the scanner armed for `scan_for` (normally the sequence's own
/// secrets; a dry scan uses another sequence's secrets to rule out benign occurrences).
fn execute(seq: &Sequence, scan_for: &[[u8; 32]], real_secrets: &[[u8; 32]], canary: bool) -> (RunOut, Option<(usize, usize, usize, usize)>, bool) {
    let mut out = RunOut::default();
    let mut scan = Box::new(Scan::new());
    for (i, s) in scan_for.iter().take(MAX_SECRETS).enumerate() {
        scan.secrets[i] = *s;
        scan.n_secrets = i + 1;
    }
    // exemptions for every (secret, transfer count) in use (computed before scanning starts)
    for s in scan_for {
        if let Ok(d) = BytesDigest::try_from(*s) {
            for tc in &seq.tcs {
                for pad in upstream_pads(d, *tc) {
                    if scan.n_exempt < MAX_EXEMPT && pad.len() <= EXEMPT_LEN {
                        let e = scan.n_exempt;
                        scan.exempt[e][..pad.len()].copy_from_slice(&pad);
                        scan.exempt_len[e] = pad.len();
                        scan.n_exempt += 1;
                    }
                }
            }
        }
    }
    let digests: Vec<BytesDigest> = real_secrets.iter().map(|s| BytesDigest::try_from(*s).expect("secrets are canonical")).collect();
    // every object lives in its own heap block from creation; the pool holds only pointers, so the
    // harness itself never moves a secret-bearing value out of a heap slot (a move leaves stale bytes)
    // pool entries are single pointers (fully initialised words): a pool block can never carry 32
    // contiguous stale stack bytes; each `Obj` block is 32 bytes with initialised tag and pointer
    let scan_ptr: *mut Scan = &mut *scan;
    SCAN.with(|c| c.set(scan_ptr));
    // allocated only now, while simulating, so its capacity starts zeroed (see `alloc`)
    let mut pool: Vec<Option<Box<Obj>>> = Vec::with_capacity(64);

    let mut canary_caught = !canary;
    if canary {
        // built-in canary: the harness itself frees a buffer holding the first scanned secret
        let v: Vec<u8> = scan_for[0].to_vec();
        drop(v);
        let s = unsafe { &mut *scan_ptr };
        if s.hit.is_some() {
            canary_caught = true;
            s.hit = None;
        }
    }

    for (oi, op) in seq.ops.iter().enumerate() {
        unsafe { (*scan_ptr).cur_op = oi };
        out.ops_run += 1;
        let pick = |pool: &Vec<Option<Box<Obj>>>, obj: usize| -> Option<usize> {
            if pool.is_empty() { None } else { let i = obj % pool.len(); if pool[i].is_some() { Some(i) } else { None } }
        };
        let mut put = |pool: &mut Vec<Option<Box<Obj>>>, o: Obj| {
            if pool.len() < 60 {
                pool.push(Some(Box::new(o)));
            }
        };
        match op {
            Op::SecretNew { s } => {
                let mut buf = real_secrets[*s];
                let r = Secret::new(&mut buf);
                if buf != [0u8; 32] {
                    out.findings.push(("scrub:caller-buffer-not-zeroed".into(), format!("op {oi}: Secret::new returned {} and left the caller's buffer non-zero", if r.is_ok() { "Ok" } else { "Err" })));
                }
                if let Ok(sec) = r {
                    put(&mut pool, Obj::Secret(Box::new(sec)));
                }
            }
            Op::SecretNewInvalid { s } => {
                let mut buf = real_secrets[*s];
                // make the last limb >= p, the rest still carries secret bytes
                buf[24..32].copy_from_slice(&u64::MAX.to_le_bytes());
                let r = Secret::new(&mut buf);
                out.error_paths += 1;
                if r.is_ok() {
                    out.probes.inc("invalid_secret_accepted");
                }
                if buf != [0u8; 32] {
                    out.findings.push(("scrub:caller-buffer-not-zeroed".into(), format!("op {oi}: Secret::new on an invalid digest left the caller's buffer non-zero")));
                }
            }
            Op::SecretFromDigest { s } => put(&mut pool, Obj::Secret(Box::new(Secret::from(digests[*s])))),
            Op::SecretFromFelts { s } => put(&mut pool, Obj::Secret(Box::new(Secret::from(bytes_to_digest(digests[*s]))))),
            Op::SecretTryFromArray { s } => {
                if let Ok(sec) = Secret::try_from(real_secrets[*s]) {
                    put(&mut pool, Obj::Secret(Box::new(sec)));
                }
            }
            Op::Expose { obj } => {
                if let Some(i) = pick(&pool, *obj) {
                    match &**pool[i].as_ref().unwrap() {
                        Obj::Secret(s) => {
                            let d = s.expose_digest();
                            let f = s.expose_felts();
                            let again = Secret::from(d);
                            let _ = again == **s;
                            let _ = digest_to_bytes(f);
                        }
                        Obj::Nullifier(n) => {
                            let _ = n.secret.expose_felts();
                        }
                        Obj::Account(a) => {
                            let _ = a.secret.expose_digest();
                        }
                        Obj::Inputs(c) => {
                            let _ = c.private.secret.expose_digest();
                            let _ = format!("{:?}", c);
                        }
                        _ => {}
                    }
                }
            }
            Op::NullifierNew { s, tc, pd } => put(&mut pool, Obj::Nullifier(Box::new(Nullifier::new(public_digest(*pd, 0x11), digests[*s], *tc)))),
            Op::NullifierFromPreimage { s, tc } => put(&mut pool, Obj::Nullifier(Box::new(Nullifier::from_preimage(digests[*s], *tc)))),
            Op::NullifierFromInputs { s, tc } => {
                let inputs = make_inputs(digests[*s], *tc);
                put(&mut pool, Obj::Nullifier(Box::new(Nullifier::from(&inputs))));
            }
            Op::AccountNew { s, pd } => put(&mut pool, Obj::Account(Box::new(UnspendableAccount::new(public_digest(*pd, 0x12), digests[*s])))),
            Op::AccountFromSecret { s } => put(&mut pool, Obj::Account(Box::new(UnspendableAccount::from_secret(digests[*s])))),
            Op::AccountFromInputs { s, tc } => {
                let inputs = make_inputs(digests[*s], *tc);
                put(&mut pool, Obj::Account(Box::new(UnspendableAccount::from(&inputs))));
            }
            Op::InputsNew { s, tc } => put(&mut pool, Obj::Inputs(Box::new(make_inputs(digests[*s], *tc)))),
            Op::ToBytes { obj } => {
                if let Some(i) = pick(&pool, *obj) {
                    let b = match &**pool[i].as_ref().unwrap() {
                        Obj::Nullifier(n) => Some((n.to_bytes(), true)),
                        Obj::Account(a) => Some((a.to_bytes(), false)),
                        _ => None,
                    };
                    if let Some((b, is_n)) = b {
                        put(&mut pool, Obj::Bytes(b, is_n));
                    }
                }
            }
            Op::ToFelts { obj } => {
                if let Some(i) = pick(&pool, *obj) {
                    let f = match &**pool[i].as_ref().unwrap() {
                        Obj::Nullifier(n) => Some((n.to_field_elements(), true)),
                        Obj::Account(a) => Some((a.to_field_elements(), false)),
                        _ => None,
                    };
                    if let Some((f, is_n)) = f {
                        put(&mut pool, Obj::Felts(f, is_n));
                    }
                }
            }
            Op::FromBytes { obj, kind } => {
                if let Some(i) = pick(&pool, *obj) {
                    if let Obj::Bytes(b, is_n) = &**pool[i].as_ref().unwrap() {
                        // the caller's working copy is itself a scrubbing buffer with full capacity
                        // (capacity for the longest variant up front: the harness's own buffer must never regrow)
                        let mut w = zeroize::Zeroizing::new(Vec::with_capacity(2 * b.len() + 64));
                        w.extend_from_slice(b);
                        match kind {
                            1 => w.push(0),
                            // over-long inputs: a whole further digest, a ragged tail, the record twice
                            4 => w.extend_from_slice(&[0x21u8; 32]),
                            5 => w.extend_from_slice(&[7u8; 13]),
                            6 => {
                                let l = w.len();
                                w.extend_from_within(..l);
                            }
                            2 => {
                                // non-canonical limb inside the secret region (secret starts at byte 32)
                                if w.len() >= 64 {
                                    w[56..64].copy_from_slice(&u64::MAX.to_le_bytes());
                                }
                            }
                            3 => {
                                let l = w.len();
                                w.truncate(l - 1);
                            }
                            _ => {}
                        }
                        if *kind != 0 {
                            out.error_paths += 1;
                        }
                        if *is_n {
                            match Nullifier::from_bytes(&w) {
                                Ok(n) => put(&mut pool, Obj::Nullifier(Box::new(n))),
                                Err(e) => drop(format!("{e:#}")),
                            }
                        } else {
                            match UnspendableAccount::from_bytes(&w) {
                                Ok(a) => put(&mut pool, Obj::Account(Box::new(a))),
                                Err(e) => drop(format!("{e:#}")),
                            }
                        }
                    }
                }
            }
            Op::FromFelts { obj, kind } => {
                if let Some(i) = pick(&pool, *obj) {
                    if let Obj::Felts(f, is_n) = &**pool[i].as_ref().unwrap() {
                        let mut v = Vec::with_capacity(2 * f.len() + 8);
                        v.extend_from_slice(f.as_slice());
                        match kind {
                            1 => v.push(F::ONE),
                            // over-long: four more felts, the record twice
                            3 => v.extend_from_slice(&[F::ONE; 4]),
                            4 => {
                                let l = v.len();
                                v.extend_from_within(..l);
                            }
                            2 => {
                                let l = v.len();
                                v[l - 1] = F::from_canonical_u64(1 << 40);
                            }
                            _ => {}
                        }
                        if *kind != 0 {
                            out.error_paths += 1;
                        }
                        let w = SensitiveFelts::new(v);
                        if *is_n {
                            match Nullifier::from_field_elements(w.as_slice()) {
                                Ok(n) => put(&mut pool, Obj::Nullifier(Box::new(n))),
                                Err(e) => drop(format!("{e:#}")),
                            }
                        } else {
                            match UnspendableAccount::from_field_elements(w.as_slice()) {
                                Ok(a) => put(&mut pool, Obj::Account(Box::new(a))),
                                Err(e) => drop(format!("{e:#}")),
                            }
                        }
                    }
                }
            }
            Op::BoxIt { obj } => {
                // kept for replay-file compatibility: behaves as an expose on the object
                let _ = pick(&pool, *obj);
            }
            Op::Drop { obj } => {
                if let Some(i) = pick(&pool, *obj) {
                    pool[i] = None;
                }
            }
        }
    }
    // everything still alive is dropped in seeded (reverse-interleaved) order at the end
    unsafe { (*scan_ptr).cur_op = seq.ops.len() };
    let mut order: Vec<usize> = (0..pool.len()).collect();
    order.reverse();
    for (k, i) in order.iter().enumerate() {
        if k % 2 == 0 {
            pool[*i] = None;
        }
    }
    drop(pool);
    SCAN.with(|c| c.set(std::ptr::null_mut()));
    let hit = scan.hit;
    out.probes.add("frees_scanned", scan.frees_scanned);
    out.probes.add("bytes_scanned", scan.bytes_scanned);
    out.probes.add("frees_of_exempt_upstream_blocks", scan.exempt_hits);
    out.probes.add("reallocs_moved", scan.reallocs_moved);
    out.probes.add("error_paths_with_secret_in_scope", out.error_paths);
    out.history = qpz_core::rng::hash_str(&serde_json::to_string(&seq.ops).unwrap());
    (out, hit, canary_caught)
}

/// Full evaluation of one sequence: structured secrets are first dry-scanned
/// (same operations, other secret) so a benign buffer can never raise an alarm.
fn evaluate(seq: &Sequence, rng_for_dry: &mut Rng) -> RunOut {
    // dry scan: run the same operations with different (random) secrets while scanning for
    // the real ones; any occurrence is benign by construction
    let dry_secrets: Vec<[u8; 32]> = seq.secrets.iter().map(|_| random_secret(rng_for_dry, false)).collect();
    let (_, dry_hit, _) = execute(seq, &seq.secrets, &dry_secrets, false);
    if dry_hit.is_some() {
        let mut o = RunOut::default();
        o.probes.inc("sequence_skipped_pattern_occurs_benignly");
        return o;
    }
    let (mut out, hit, canary) = execute(seq, &seq.secrets, &seq.secrets, true);
    if !canary {
        harness_error("canary missed: the scanning allocator did not see a freed buffer holding the secret");
    }
    if let Some((size, si, op, off)) = hit {
        let what = if op < seq.ops.len() { format!("{:?}", seq.ops[op]) } else { "final drops".to_string() };
        out.findings.push(("scrub:secret-freed-unscrubbed".into(), format!("a {size}-byte heap block still holding secret #{si} (at offset {off}) was freed during op {op} ({what})")));
    }
    out
}

#[derive(Serialize, Deserialize)]
struct ReplayFile {
    property: String,
    sim: String,
    seed: u64,
    run: u64,
    class: String,
    detail: String,
    sequence: Sequence,
}

fn main() {
    let args: Vec<String> = std::env::args().collect();
    let mut tier_arg = None;
    let mut replay: Option<String> = None;
    let mut i = 1;
    while i < args.len() {
        match args[i].as_str() {
            "--property" => i += 1,
            "--tier" => { tier_arg = Some(args[i + 1].clone()); i += 1; }
            "--replay" => { replay = Some(args[i + 1].clone()); i += 1; }
            other => harness_error(&format!("unknown argument {other}")),
        }
        i += 1;
    }
    let seed = qpz_core::seed_from_env();
    let tier = Tier::from_env_or(tier_arg.as_deref());
    println!("VERIF_SEED={seed} property=C33 tier={} sim=alloc", tier.as_str());
    let t0 = qpz_core::real_now_ns();

    if let Some(path) = replay {
        let rf: ReplayFile = serde_json::from_str(&std::fs::read_to_string(&path).unwrap_or_else(|e| harness_error(&format!("cannot read {path}: {e}")))).unwrap_or_else(|e| harness_error(&format!("bad replay file: {e}")));
        let out = evaluate(&rf.sequence, &mut Rng::new(1));
        for (c, d) in &out.findings {
            println!("replayed: class={c} {d}");
        }
        if !out.findings.is_empty() {
            println!("VIOLATION property=C33 replay={path}");
            std::process::exit(EXIT_VIOLATION);
        }
        println!("replay: no violation on this tree");
        std::process::exit(EXIT_OK);
    }

    let (max_runs, budget) = match tier {
        Tier::Quick => (400_000u64, 0),
        Tier::Thorough => (u64::MAX / 2, qpz_core::budget_s(600)),
    };
    let cfg = BatchCfg { first_run: 0, max_runs, budget_s: budget, workers: qpz_core::workers(), stop_on_failure: true };
    let results = run_batch(
        &cfg,
        |_| (),
        |_, run| {
            let mut rng = Rng::new(mix(seed, 0x3300_0000_0000 + run));
            let seq = random_sequence(&mut rng);
            let out = evaluate(&seq, &mut rng);
            (seq, out)
        },
        |(_, out)| !out.findings.is_empty(),
    );
    let mut probes = Counters::default();
    let mut histories: HashSet<u64> = HashSet::new();
    let mut nontrivial: HashSet<u64> = HashSet::new();
    let mut ops = 0u64;
    let mut first: Option<(u64, Sequence, String, String)> = None;
    let mut samples = vec![];
    for (run, (seq, out)) in &results {
        probes.merge(&out.probes);
        ops += out.ops_run as u64;
        histories.insert(out.history);
        if out.probes.get("frees_scanned") > 0 && (out.error_paths > 0 || out.probes.get("reallocs_moved") > 0 || out.probes.get("frees_of_exempt_upstream_blocks") > 0) {
            nontrivial.insert(out.history);
        }
        if samples.len() < 2 && seq.ops.len() > 8 {
            samples.push(json!({"run": run, "tcs": seq.tcs, "secrets": seq.secrets.len(), "ops": seq.ops.iter().take(12).collect::<Vec<_>>()}));
        }
        if first.is_none() {
            if let Some((c, d)) = out.findings.first() {
                first = Some((*run, seq.clone(), c.clone(), d.clone()));
            }
        }
    }
    let wall = (qpz_core::real_now_ns() - t0) as f64 / 1e9;
    let mut exit = EXIT_OK;
    let mut replay_path = String::new();
    if let Some((run, seq, class, detail)) = first {
        // minimise the operation sequence while the same class persists
        let cls = class.clone();
        let secrets = seq.secrets.clone();
        let tcs = seq.tcs.clone();
        let mut fails = |ops: &[Op]| {
            let s = Sequence { secrets: secrets.clone(), tcs: tcs.clone(), ops: ops.to_vec() };
            evaluate(&s, &mut Rng::new(1)).findings.iter().any(|(c, _)| *c == cls)
        };
        let (min_ops, _) = if fails(&seq.ops) { qpz_core::shrink::ddmin(seq.ops.clone(), &mut fails, 2000) } else { (seq.ops.clone(), 0) };
        let minimal = Sequence { secrets: seq.secrets.clone(), tcs: seq.tcs.clone(), ops: min_ops };
        let re = evaluate(&minimal, &mut Rng::new(1));
        let (sequence, detail) = match re.findings.iter().find(|(c, _)| *c == class) {
            Some((_, d)) => (minimal, d.clone()),
            None => (seq, detail),
        };
        let rf = ReplayFile { property: "C33".into(), sim: "alloc".into(), seed, run, class: class.clone(), detail: detail.clone(), sequence };
        replay_path = format!("{}/C33-{}.json", qpz_core::replay_dir(), qpz_core::rng::hash_str(&serde_json::to_string(&rf.sequence).unwrap()));
        std::fs::write(&replay_path, serde_json::to_string_pretty(&rf).unwrap()).unwrap();
        println!("violation class={class} run={run} ops={}: {detail}", rf.sequence.ops.len());
        println!("VIOLATION property=C33 replay={replay_path}");
        exit = EXIT_VIOLATION;
    }
    if exit == EXIT_OK && probes.get("frees_of_exempt_upstream_blocks") == 0 {
        harness_error("reach probe 'frees_of_exempt_upstream_blocks' is zero: the scanner never saw the documented upstream pad buffer, so it may not be seeing secrets at all");
    }
    let n = results.len() as u64;
    let mut extra = serde_json::Map::new();
    extra.insert("sequences".into(), json!(n));
    extra.insert("operations".into(), json!(ops));
    extra.insert("runs_per_hour".into(), json!((n as f64 / wall * 3600.0).round()));
    extra.insert("reach_probes".into(), probes.to_json());
    extra.insert("faults_fired".into(), json!({"realloc_forced_to_move": probes.get("reallocs_moved"), "error_paths_with_secret_in_scope": probes.get("error_paths_with_secret_in_scope")}));
    extra.insert("simulated_time".into(), json!("not applicable: no timers"));
    extra.insert("components".into(), json!({
        "real": ["sensitive.rs (Secret, SensitiveFelts)", "nullifier.rs and unspendable_account.rs constructors, hashing, (de)serialisation", "CircuitInputs / PrivateCircuitInputs", "upstream Poseidon2 hashing", "zeroize"],
        "stub": [],
        "simulated": ["the process allocator: realloc placement decided adversarially (always moves), every freed block scanned"]
    }));
    if !replay_path.is_empty() {
        extra.insert("replay".into(), json!(replay_path));
    }
    let ev = Evidence {
        property_id: "C33".into(),
        tier: tier.as_str().into(),
        seed,
        level: "exploration".into(),
        evaluations: n,
        distinct_nontrivial: nontrivial.len() as u64,
        rule: "one evaluation = one seeded sequence of 5-60 secret-handling calls over a pool of live objects dropped in seeded order, executed under the scanning allocator; distinct = distinct operation sequence; non-trivial = blocks were scanned and the sequence took an error path with a secret in scope, forced a realloc to move, or freed an exempt upstream block".into(),
        samples,
        exhaustive: None,
        extra,
        assumptions: vec![
            "stack copies and copies inside plonky2's PartialWitness are excluded by the property and by sensitive.rs".into(),
            "the single carve-out is reproduced exactly: a freed block that is byte-for-byte an upstream pad10_to_rate image for a (secret, transfer count) pair in use".into(),
            "caller-induced moves of heap containers holding secret-bearing objects (e.g. a growing Vec<Nullifier>) are caller behaviour, not part of the secret-handling APIs, and are not generated".into(),
            "little-endian target: the felt encoding has the same memory image as the 32-byte form".into(),
        ],
        wall_s: wall,
        violations: if exit == EXIT_OK { 0 } else { 1 },
    };
    ev.write(&qpz_core::evidence_path("C33")).unwrap_or_else(|e| harness_error(&format!("cannot write evidence: {e}")));
    println!("C33: sequences={n} ops={ops} nontrivial={} frees_scanned={} wall={wall:.1}s", nontrivial.len(), probes.get("frees_scanned"));
    std::process::exit(exit);
}
