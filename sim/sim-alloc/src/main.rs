fn main() {}
