#!/bin/bash
# Determinism proof (DESIGN.md section 4): run N seeds twice each, in separate processes and at
# two worker counts, and diff the full event logs. Exit 0 identical, 2 on any divergence.
# usage: selftest-determinism.sh [--tier quick|thorough]
set -u
HERE="$(cd "$(dirname "$0")" && pwd)"
TIER=quick; [ "${1:-}" = "--tier" ] && TIER="${2:-quick}"
N=200; [ "$TIER" = thorough ] && N=2000
export CARGO_NET_OFFLINE=true
export CARGO_TARGET_DIR="$HERE/target"
( cd "$HERE/sim" && cargo build --release --offline -p sim-pool -p sim-alloc -p sim-rng >"$HERE/target/build-selftest.log" 2>&1 ) || { echo "HARNESS-ERROR: build failed"; tail -20 "$HERE/target/build-selftest.log"; exit 2; }
T=$(mktemp -d /dev/shm/qpz-det-XXXXXX); trap 'rm -rf "$T"' EXIT
fail=0
for seed in 1 7 4242; do
  for prop in C19 C21; do
    VERIF_SEED=$seed VERIF_WORKERS=16 "$HERE/target/release/sim-pool" --property $prop --runs $N --dump-logs > "$T/a.log" 2>&1
    VERIF_SEED=$seed VERIF_WORKERS=5  "$HERE/target/release/sim-pool" --property $prop --runs $N --dump-logs > "$T/b.log" 2>&1
    if cmp -s "$T/a.log" "$T/b.log"; then echo "pool $prop seed=$seed: $N runs identical at 16 and 5 workers ($(wc -l < "$T/a.log") log lines)"; else echo "DIVERGENCE pool $prop seed=$seed"; diff "$T/a.log" "$T/b.log" | head -5; fail=1; fi
  done
  # allocator simulator: verdict and counters are a function of the seed (the scanned byte counts included)
  a=$(VERIF_SEED=$seed VERIF_WORKERS=16 VERIF_EVIDENCE_DIR="$T" "$HERE/target/release/sim-alloc" --property C33 | tail -1 | sed 's/wall=.*//')
  b=$(VERIF_SEED=$seed VERIF_WORKERS=3  VERIF_EVIDENCE_DIR="$T" "$HERE/target/release/sim-alloc" --property C33 | tail -1 | sed 's/wall=.*//')
  if [ "$a" = "$b" ]; then echo "alloc seed=$seed: identical ($a)"; else echo "DIVERGENCE alloc seed=$seed: [$a] vs [$b]"; fail=1; fi
done
[ $fail -eq 0 ] && { echo "determinism self-test passed"; exit 0; }
exit 2
