"""Checks added after the first four; PENDING lists properties whose check is designed but not built yet."""

def register(add, PENDING):
    PENDING.update({
        "C15": "simulation target per DESIGN.md 7 (randomness seam); check not built yet, therefore not claimed",
        "C16": "simulation target per DESIGN.md 6/9 (storage faults on template files); check not built yet, therefore not claimed",
        "C17": "simulation target per DESIGN.md 6 (storage and I/O faults on artifact files); check not built yet, therefore not claimed",
        "C18": "simulation target per DESIGN.md 5 real mode; check not built yet, therefore not claimed",
        "C23": "simulation target per DESIGN.md 6 (crash/fault enumeration of the publisher); check not built yet, therefore not claimed",
        "C33": "simulation target per DESIGN.md 8 (allocator seam); check not built yet, therefore not claimed",
        "C36": "simulation target per DESIGN.md 5 real mode; check not built yet, therefore not claimed",
    })
