"""Checks added after the first four; PENDING lists properties whose check is designed but not built yet."""

def register(add, PENDING):
    PENDING.update({
        "C15": "simulation target per DESIGN.md 7 (randomness seam); check not built yet, therefore not claimed",
        "C16": "simulation target per DESIGN.md 6/9 (storage faults on template files); check not built yet, therefore not claimed",
        "C17": "simulation target per DESIGN.md 6 (storage and I/O faults on artifact files); check not built yet, therefore not claimed",
        "C18": "simulation target per DESIGN.md 5 real mode; check not built yet, therefore not claimed",
        "C33": "simulation target per DESIGN.md 8 (allocator seam); check not built yet, therefore not claimed",
        "C36": "simulation target per DESIGN.md 5 real mode; check not built yet, therefore not claimed",
    })

    STORE_NOTE = ("Trusted: the harness (libc filesystem interposition with a seam self-test at every start, child-process protocol, directory-tree oracles), "
                  "tmpfs as the disk, and the crash model 'process death' (completed system calls are durable; power loss is not modelled because the code never fsyncs and the property does not claim it).")
    add("C23", "fault_enumeration", "deterministic fault injection at the system-call seam: every call of the publish/rollback sequence failed or turned into process death, singly and in adaptive pairs, plus seeded multi-run histories and full-pipeline runs",
        "DESIGN.md 6, 9/C23",
        "Complete enumeration of single faults (crash, short write, 11 errnos) and adaptive fault pairs over every system call of the real publish routine from five initial states, judged on the real directory tree after each child exit (no mix, no lost copy, success reported iff live, failed generation leaves nothing behind, progress after faults); seeded histories of several builder runs over accumulated debris and runs of the full generate_all_circuit_binaries pipeline are sampled.",
        STORE_NOTE)
