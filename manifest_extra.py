"""Checks added after the first four; PENDING lists properties whose check is designed but not built yet."""

def register(add, PENDING):
    PENDING.update({
    })

    STORE_NOTE = ("Trusted: the harness (libc filesystem interposition with a seam self-test at every start, child-process protocol, directory-tree oracles), "
                  "tmpfs as the disk, and the crash model 'process death' (completed system calls are durable; power loss is not modelled because the code never fsyncs and the property does not claim it).")
    add("C23", "fault_enumeration", "deterministic fault injection at the system-call seam: every call of the publish/rollback sequence failed or turned into process death, singly and in adaptive pairs, plus seeded multi-run histories and full-pipeline runs",
        "DESIGN.md 6, 9/C23",
        "Complete enumeration of single faults (crash, short write, 11 errnos) and adaptive fault pairs over every system call of the real publish routine from five initial states, judged on the real directory tree after each child exit (no mix, no lost copy, success reported iff live, failed generation leaves nothing behind, progress after faults); seeded histories of several builder runs over accumulated debris are sampled; through the public generate_all_circuit_binaries entry point every rename of the publish phase is failed, failed together with the following call, and crashed at (enumerated), and further single and double faults in the generation and publish phases are sampled.",
        STORE_NOTE)

    add("C16", "fault_enumeration", "storage-fault injection on padding-template files (misdirected valid proofs, edited public inputs, flips, truncation, stale/wrong-layer files) x every entry point, each booted in a child process",
        "DESIGN.md 6, 9/C16",
        "Every constructor, loader, aggregator init and build stage that accepts a padding template is booted once per template fault; the template on disk is judged by the harness's own predicate (deserialises, sentinel at the documented offsets, accepted by the canonical verifier) and anything failing it must be refused, a refusing build stage must write nothing, and the genuine template must be accepted (precondition). Valid-but-wrong proofs include one verifying foreign dummy per single non-zero sentinel limb (asset id, each limb of either exit account), the only way a validator that skips one felt becomes observable. Quick runs every valid-but-wrong proof and a seeded quarter of the other faults for shape (1,1); thorough runs all faults plus seeded positions for three shapes.",
        STORE_NOTE)
    add("C17", "fault_enumeration", "storage faults at rest and I/O faults at load time on artifact files x every loader, reads observed at the libc seam (which files were opened, how many bytes were read)",
        "DESIGN.md 6, 9/C17",
        "Every loader is booted in a child process from directories with storage faults (bit flip, truncation, extension, zero fill, torn/lost/misdirected writes, missing and sparse oversize files, poison prover artifacts, config variants, mixed generations) and I/O faults; acceptance implies that every artifact the loader READ is canonical for the shape in use (byte-identical for leaf/private batch, parse-and-reserialise-identical for the public batch, C16 predicate for templates), over-cap files yield zero bytes read, and no *prover*.bin is ever read, also through commit and prove. One-directional: rejections are never alarmed.",
        STORE_NOTE)

    add("C15", "exploration", "randomness seam: seeded, faulted (non-canonical-first, stuck, short-cycle) and own-source random streams through the two thread_rng sites; committed partial witness read back; chi-square at p=1e-9 on slot arrangements",
        "DESIGN.md 7, 9/C15",
        "Thousands of repeated commits per batch shape (N<=3 quick, N<=4 and N=8 thorough; every k in 1..N) on real leaf proofs with the simulator supplying the random stream: exactness of slot contents on every stream, seam closure (same seed => same commit), freshness and independence of preimages, canonicity with the rejection loop actually driven, uniformity of the slot arrangement by Pearson chi-square, plus own-source runs that exercise the shipped entropy source so a degraded generator is not masked by the hook. Public batches: supplied order then templates.",
        "Trusted: the harness, the guarded RNG wrapper and witness accessors, plonky2's PartialWitness as the record of what will be proved. Uniformity is statistical (p = 1e-9 per test); own-source runs use real entropy and are the only part that is not a pure function of VERIF_SEED.")

    add("C33", "exploration", "allocator seam: simulator-owned global allocator decides realloc placement adversarially (always moves) and scans every freed block for live secrets, over seeded secret-handling call sequences with seeded drop order",
        "DESIGN.md 8, 9/C33",
        "Hundreds of thousands of seeded sequences (5-60 calls) over the whole secret-handling surface (constructors, hashing, both serialisations and their error paths, equality, drop) run under an allocator the simulator owns; a freed block containing a live secret is a violation unless it is byte-for-byte the documented upstream pad buffer; Secret::new must zero the caller's buffer on Ok and Err. Weakest fit of the claimed properties: there is no clock or I/O here, the environment the property depends on is allocator placement and the history of calls and drops.",
        "Trusted: the harness allocator (with a built-in canary that must be caught in every run and a reach probe on the exempt upstream block), zero-on-alloc while simulating, typed exactly-sized boxes for pooled objects so the harness itself never moves a secret out of a heap slot. Stack copies and plonky2's PartialWitness are out of scope as in sensitive.rs.")

    REAL_NOTE = ("Trusted: the harness (world generation, native oracles, network model), plonky2 proving/verification, the canonical public-batch verifier rebuilt from the working tree as 'the chain', the guarded RNG wrapper and witness accessors. "
                 "Every circuit, artifact and proof is real; shapes (N,M): (2,2) and (1,1) quick, up to (4,2)/(2,3) thorough; the first run of every shape uses a forced split that pads at both layers. Proof bytes differ run to run (ZK blinding), public inputs do not; logs and oracles use public inputs only.")
    add("C18", "exploration", "multi-party simulation in real mode: two aggregators with different addresses (plus observer aggregators with structurally related addresses) exchange real public-batch proofs over a faulty network; each proof checked at the chain, its producer, the other miner and every observer, as is and corrupted in flight",
        "DESIGN.md 5.4 O-address, 9/C18",
        "Seeded runs of the whole pipeline with real proofs: every proof ProvingContext::prove_batch returns must verify under the canonical verifier rebuilt from source and expose the configured address; the other aggregator (random address, address differing in one felt, or the all-zero address) and fifteen observer aggregators per shape whose addresses are structurally related to the producer's (one byte of one limb changed, only one limb shared, limbs rotated or reversed, all-zero) must reject it although it is valid; copies with the address felts swapped for the receiver's, a flipped felt, or a shortened/lengthened public-input vector must be rejected without panicking.",
        REAL_NOTE)
    add("C36", "exploration", "multi-party simulation in real mode: clients, pool, two proving layers and chain on honest inputs, with a native conservation oracle fed by the RNG seam",
        "DESIGN.md 5.4 O-conservation, 9/C36",
        "Seeded runs on honest inputs: deposits under a real header, real leaf proofs split into padded private batches (slot order and dummy preimages known through the RNG seam), pooled by the real aggregator, snapshot and proved into public batches; per verified public proof the exit slots must sum (in total and per account) to what the real leaves pay, the non-zero nullifiers must be exactly the real nullifiers plus H(H(u)) of every dummy preimage of the real inners, and padding inners' segments must be all-zero. Says nothing about adversarial witnesses.",
        REAL_NOTE)
