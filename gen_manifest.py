#!/usr/bin/env python3
"""Generates MANIFEST.json from the table below (single source of truth)."""
import json, subprocess

NA = {
 "C01": "satisfiability of one constraint system over adversarial witnesses; no schedule, clock, I/O, fault or interleaving for a simulator to own",
 "C02": "wiring between two sub-circuits of one constraint system; a pure constraint-system fact",
 "C03": "header/Merkle binding inside the leaf constraint system; a pure constraint-system fact",
 "C04": "the dummy flag is derived in-circuit from the witness; no environment involved",
 "C05": "completeness and public-input order of a single commit+prove call; deterministic in its inputs",
 "C06": "input-to-output relation of the private-batch wrapper circuit; pure function of the child public inputs",
 "C07": "'satisfiable iff predicate(child PIs)' is a fact about one constraint system",
 "C08": "arithmetic identity between child PIs and wrapper PIs; pure",
 "C09": "invariance of a pure relation under permutation of its input",
 "C10": "uniqueness of satisfying witnesses of a constraint system",
 "C11": "quantifies over alternative child circuits (programs); verifier-key baking is structural",
 "C12": "input-to-output relation of the public-batch wrapper circuit; pure",
 "C13": "'satisfiable iff predicate(inner PIs)' is a fact about one constraint system",
 "C14": "agreement of a deterministic preflight predicate with a constraint system on the same proof vector",
 "C24": "parsers are total pure functions of a slice",
 "C25": "encoders/decoders are pure functions",
 "C26": "hash-domain checks and hashing are pure functions",
 "C27": "native Merkle verification is a pure function; equivalence with the circuit is a constraint-system fact",
 "C28": "a pure predicate over CircuitConfig and pure constructors",
 "C29": "pure count-bounds checks at each entry point (corrupt/torn config.json files are injected under C17, which does not decide this quantifier)",
 "C30": "gadget soundness/completeness over field elements and hint wires",
 "C31": "gadget soundness/completeness",
 "C32": "Debug rendering is a pure function of the value",
 "C34": "proof checking of a Lean package and evaluation of pure definitions",
 "C35": "JSON parsing of a &str is a pure function",
}

# id -> (level, technique, design_ref, text, note, has_replay)
CHECKS = {}

def add(pid, level, technique, ref, text, note):
    CHECKS[pid] = dict(level=level, technique=technique, ref=ref, text=text, note=note)

POOL_NOTE = ("Trusted: the harness (reference model, executor, libc clock interposition with a seam self-test at every start), "
             "the plonky2 verifier as ground truth for 'the proof verifies', and the guarded read-only accessor/notifier hooks. "
             "Bulk search uses the 2-gate stub circuit the repository's own pool tests use; pool operations are atomic because the API takes &mut self.")
add("C19", "exploration", "deterministic simulation of the miner service (virtual clock, faulty network, seeded schedules) against a sequential reference model of admission",
    "DESIGN.md 5, 9/C19",
    "Seeded search over operation histories of the real ProofPool under a simulator-owned clock: every push is decided independently by a sequential model of the documented rules that keeps its own fixed-window budget state, the verification notifier decides rule ORDER (no error strings), and the full private state is compared after every operation. Limit settings include fractional, sub-second, off-by-one-nanosecond, never-ending (Duration::MAX) windows and unlimited (usize::MAX) caps; one run in three concentrates on a hot key. A panic inside a pool call is a finding. Sampling, not proof: a clean batch is evidence over the explored histories.",
    POOL_NOTE)
add("C20", "exploration", "deterministic simulation; invariants evaluated on the real pool's state after every simulated event",
    "DESIGN.md 5.4 O-invariants, 9/C20",
    "The pool invariants (index exactness, no shared nullifier, no empty bucket, own-key placement, limits, statistics = contents) are recomputed from a read-only dump and the public API after every event of every seeded run, independently of the reference model.",
    POOL_NOTE)
add("C21", "exploration", "deterministic simulation; custody oracle over recorded histories with proving jobs holding snapshots across evictions",
    "DESIGN.md 5.4 O-custody, 9/C21",
    "After every operation the multiset of pooled proofs may change only by the removal set the documented semantics give for that operation; eviction counts, remove_bucket results and snapshot contents (and the admission order of what stays) are compared with the model and every snapshot is fed to the real public-batch preflight. Expiry is also called with the operator's boundary settings (never expire = Duration::MAX, zero cutoff) and aimed at partial expiry of deep buckets.",
    POOL_NOTE)
add("C22", "exploration", "deterministic simulation with clock advances aimed at window boundaries (exact, +-1 ns, during verification); verification-call counter per window",
    "DESIGN.md 5.4 O-verify/O-budget, 9/C22",
    "Counts real verifier invocations per pool window over seeded histories whose clock is advanced to window boundaries exactly and by one nanosecond either side, in the middle of bursts and during a verification; checks the counter/window state after every push against the model's own fixed-window state (the window must restart exactly at the first push that reaches the budget test once a full window has elapsed, and only then) and the per-window bound over the recorded history. Windows are whole, fractional, sub-second, one nanosecond off a whole second, and never-ending.",
    POOL_NOTE)

PENDING = {}

def main():
    checks = []
    for pid, c in sorted(CHECKS.items()):
        checks.append({
            "property_id": pid,
            "quick_cmd": f"./check {pid} --tier quick",
            "thorough_cmd": f"./check {pid} --tier thorough",
            "evidence_file": f"/verif/evidence/{pid}.json",
            "replay_cmd_template": f"./check {pid} --replay {{path}}",
            "engine": ENGINE_OF[pid],
            "level_claimed": {"category": c["level"], "text": c["text"], "design_ref": c["ref"]},
            "level_note": c["note"],
            "technique": c["technique"],
        })
    na = [{"property_id": k, "reason": v} for k, v in sorted(NA.items())]
    for k, v in sorted(PENDING.items()):
        na.append({"property_id": k, "reason": v})
    na.sort(key=lambda x: x["property_id"])
    commits = subprocess.run(["git", "-C", "/repo", "log", "--format=%H %s", "--grep=^verif hook"], capture_output=True, text=True).stdout.strip().splitlines()
    m = {
        "version": 1,
        "setup_cmd": "cd /verif/sim && CARGO_NET_OFFLINE=true cargo build --release --offline",
        "hooks": {
            "guard": "--cfg quantus_network_qp_zk_circuits_verif",
            "enable": "RUSTFLAGS=--cfg quantus_network_qp_zk_circuits_verif via /verif/sim/.cargo/config.toml; the simulators depend on /repo crates by path, so every check rebuilds from /repo's working tree",
            "baseline_off_cmd": "cd /repo && cargo nextest run --workspace --no-fail-fast --tool-config-file pb:/w/lib/nextest.toml --profile pb --test-threads 8 --offline || cargo test --workspace --no-fail-fast --offline",
            "source_commits": [c.split()[0] for c in reversed(commits)],
            "add_only": True,
        },
        "engines": ENGINES,
        "checks": checks,
        "not_applicable": na,
        "notes": "Technique family: deterministic simulation with fault injection. One integer (VERIF_SEED) decides every schedule, delay, fault and generated operation; exit 2 = harness error (never a verdict). See DESIGN.md.",
    }
    json.dump(m, open("/verif/MANIFEST.json", "w"), indent=1)
    print("claimed:", [c["property_id"] for c in checks], "n/a:", len(na))

ENGINES = [
    {"name": "sim-pool", "path": "/verif/sim/sim-pool", "serves_properties": ["C18", "C19", "C20", "C21", "C22", "C36"], "kind_free_text": "SIM-A: discrete-event simulation of the miner service around the real ProofPool / PublicBatchAggregator; libc clock_gettime interposed"},
    {"name": "sim-store", "path": "/verif/sim/sim-store", "serves_properties": ["C16", "C17", "C23"], "kind_free_text": "SIM-B: artifact-store simulation; libc filesystem calls interposed, child-process crashes, storage faults at rest"},
    {"name": "sim-rng", "path": "/verif/sim/sim-rng", "serves_properties": ["C15"], "kind_free_text": "SIM-C: randomness seam for batch commitment"},
    {"name": "sim-alloc", "path": "/verif/sim/sim-alloc", "serves_properties": ["C33"], "kind_free_text": "SIM-D: allocator seam for secret material"},
]
ENGINE_OF = {p: e["name"] for e in ENGINES for p in e["serves_properties"]}

if __name__ == "__main__":
    import sys
    sys.path.insert(0, "/verif")
    try:
        import manifest_extra  # noqa: F401  (later checks register themselves here)
        manifest_extra.register(add, PENDING)
    except ImportError:
        pass
    main()
